/-
C09 — ill-shaped calls panic; well-shaped calls never do.

Property theorems only (helper lemmas live in `RFV/Proofs/Validate.lean`). The model is `RFV/Model/Validate.lean`:
`helperInplace buf scratch chunk required`, `helperOop inp out scratch chunk required`,
`helperInplaceUnroll2x buf chunk`, `helperOopUnroll2x inp out chunk` return
(the chunk calls `(offset, len)` made in order, how the call ends).

Well-shaped, for `chunk ≥ 1`:
  in-place      `buf % chunk = 0 ∧ required ≤ scratch`
  out-of-place  `inp = out ∧ inp % chunk = 0 ∧ required ≤ scratch`
  unrolled      the same without the scratch clause.
`chunk = 0` (length-0 transform) is a separate clause, `helper_len0`: every helper returns without looking at any
length.
-/
import RFV.Proofs.Validate

namespace RFV

/-! ## in-place -/

/-- C09.1 a well-shaped in-place call returns, having called the chunk function on each of the `buf / chunk` chunks in
ascending order -/
theorem helperInplace_wellshaped (buf scratch chunk required : Nat) (hc : 1 ≤ chunk) (hm : buf % chunk = 0)
    (hs : required ≤ scratch) :
    helperInplace buf scratch chunk required
      = ((List.range (buf / chunk)).map (fun i => (i * chunk, chunk)), .returned) := by
  have h1 : ¬ scratch < required := by omega
  rw [helperInplace_eq _ _ _ _ hc]
  simp [h1, hm, fullCalls]

example : helperInplace 12 5 4 3 = ([(0, 4), (4, 4), (8, 4)], .returned) :=
  helperInplace_wellshaped 12 5 4 3 (by decide) (by decide) (by decide)

/-- C09.2 an ill-shaped in-place call panics: whenever validation says `Err`, `fft_error_inplace` does hit one of its
three asserts, so the call never returns normally with chunks left untransformed -/
theorem helperInplace_illshaped {buf scratch chunk required : Nat} (hc : 1 ≤ chunk)
    (h : buf % chunk ≠ 0 ∨ scratch < required) :
    ∃ k, (helperInplace buf scratch chunk required).2 = .panicked k := by
  obtain ⟨k, hk⟩ := fftErrorInplace_panics chunk buf required scratch h
  refine ⟨k, ?_⟩
  rw [helperInplace_eq _ _ _ _ hc]
  by_cases h1 : scratch < required
  · simp [h1, hk]
  · have h2 : buf % chunk ≠ 0 := by
      rcases h with h | h
      · exact h
      · exact absurd h h1
    simp [h1, h2, hk]

example : (helperInplace 13 5 4 3).2 = .panicked .notMultiple := by decide
example : (helperInplace 3 5 4 3).2 = .panicked .tooSmall := by decide
example : (helperInplace 12 2 4 3).2 = .panicked .scratch := by decide
example : ∃ k, (helperInplace 13 5 4 3).2 = .panicked k := helperInplace_illshaped (by decide) (Or.inl (by decide))

/-- C09.3 -/
theorem helperInplace_returned_iff {buf scratch chunk required : Nat} (hc : 1 ≤ chunk) :
    (helperInplace buf scratch chunk required).2 = .returned ↔ (buf % chunk = 0 ∧ required ≤ scratch) := by
  constructor
  · intro hret
    by_cases hw : buf % chunk = 0 ∧ required ≤ scratch
    · exact hw
    · have hill : buf % chunk ≠ 0 ∨ scratch < required := by
        by_cases hm : buf % chunk = 0
        · right
          have : ¬ required ≤ scratch := fun hs => hw ⟨hm, hs⟩
          omega
        · exact Or.inl hm
      obtain ⟨k, hk⟩ := helperInplace_illshaped (buf := buf) (scratch := scratch) (required := required) hc hill
      rw [hret] at hk
      cases hk
  · rintro ⟨hm, hs⟩
    rw [helperInplace_wellshaped buf scratch chunk required hc hm hs]

example : (helperInplace 12 5 4 3).2 = .returned := (helperInplace_returned_iff (by decide)).2 (by decide)

/-! ## out-of-place / immutable -/

/-- C09.4a -/
theorem helperOop_wellshaped (inp out scratch chunk required : Nat) (hc : 1 ≤ chunk) (hio : inp = out)
    (hm : inp % chunk = 0) (hs : required ≤ scratch) :
    helperOop inp out scratch chunk required
      = ((List.range (inp / chunk)).map (fun i => (i * chunk, chunk)), .returned) := by
  have h1 : ¬ scratch < required := by omega
  rw [helperOop_eq _ _ _ _ _ hc]
  simp [h1, hm, hio.symm, fullCalls]

example : helperOop 12 12 5 4 3 = ([(0, 4), (4, 4), (8, 4)], .returned) :=
  helperOop_wellshaped 12 12 5 4 3 (by decide) rfl (by decide) (by decide)

/-- C09.4b -/
theorem helperOop_illshaped {inp out scratch chunk required : Nat} (hc : 1 ≤ chunk)
    (h : inp ≠ out ∨ inp % chunk ≠ 0 ∨ scratch < required) :
    ∃ k, (helperOop inp out scratch chunk required).2 = .panicked k := by
  obtain ⟨k, hk⟩ := fftErrorOop_panics chunk inp out required scratch h
  refine ⟨k, ?_⟩
  rw [helperOop_eq _ _ _ _ _ hc]
  by_cases h1 : scratch < required
  · simp [h1, hk]
  · by_cases h3 : inp = out
    · have h2 : inp % chunk ≠ 0 := by
        rcases h with h | h | h
        · exact absurd h3 h
        · exact h
        · exact absurd h h1
      subst h3
      simp [h1, h2, hk]
    · simp [h1, h3, hk]

example : (helperOop 12 8 5 4 3).2 = .panicked .inOutMismatch := by decide
example : (helperOop 13 13 5 4 3).2 = .panicked .notMultiple := by decide
example : (helperOop 3 3 5 4 3).2 = .panicked .tooSmall := by decide
example : (helperOop 12 12 2 4 3).2 = .panicked .scratch := by decide
example : ∃ k, (helperOop 12 8 5 4 3).2 = .panicked k := helperOop_illshaped (by decide) (Or.inl (by decide))

/-- C09.4c -/
theorem helperOop_returned_iff {inp out scratch chunk required : Nat} (hc : 1 ≤ chunk) :
    (helperOop inp out scratch chunk required).2 = .returned
      ↔ (inp = out ∧ inp % chunk = 0 ∧ required ≤ scratch) := by
  constructor
  · intro hret
    by_cases hw : inp = out ∧ inp % chunk = 0 ∧ required ≤ scratch
    · exact hw
    · have hill : inp ≠ out ∨ inp % chunk ≠ 0 ∨ scratch < required := by
        by_cases hio : inp = out
        · by_cases hm : inp % chunk = 0
          · right; right
            have : ¬ required ≤ scratch := fun hs => hw ⟨hio, hm, hs⟩
            omega
          · exact Or.inr (Or.inl hm)
        · exact Or.inl hio
      obtain ⟨k, hk⟩ := helperOop_illshaped (scratch := scratch) (required := required) hc hill
      rw [hret] at hk
      cases hk
  · rintro ⟨hio, hm, hs⟩
    rw [helperOop_wellshaped inp out scratch chunk required hc hio hm hs]

example : (helperOop 12 12 5 4 3).2 = .returned := (helperOop_returned_iff (by decide)).2 (by decide)

/-! ## 2×-unrolled helpers (no scratch) -/

/-- C09.5 in-place unrolled: returned iff the length is a multiple of the chunk length … -/
theorem helperInplaceUnroll2x_returned_iff {buf chunk : Nat} (hc : 1 ≤ chunk) :
    (helperInplaceUnroll2x buf chunk).2 = .returned ↔ buf % chunk = 0 := by
  rw [helperInplaceUnroll2x_eq _ _ hc]
  by_cases hm : buf % chunk = 0
  · simp [hm]
  · obtain ⟨k, hk⟩ := fftErrorInplace_panics chunk buf 0 0 (Or.inl hm)
    simp [hm, hk]

/-- … and otherwise panicked -/
theorem helperInplaceUnroll2x_illshaped {buf chunk : Nat} (hc : 1 ≤ chunk) (h : buf % chunk ≠ 0) :
    ∃ k, (helperInplaceUnroll2x buf chunk).2 = .panicked k := by
  obtain ⟨k, hk⟩ := fftErrorInplace_panics chunk buf 0 0 (Or.inl h)
  refine ⟨k, ?_⟩
  rw [helperInplaceUnroll2x_eq _ _ hc]
  simp [h, hk]

/-- well-shaped unrolled in-place call: `buf / (2·chunk)` double calls, then one single call iff an odd chunk is left -/
theorem helperInplaceUnroll2x_wellshaped (buf chunk : Nat) (hc : 1 ≤ chunk) (hm : buf % chunk = 0) :
    helperInplaceUnroll2x buf chunk
      = ((List.range (buf / (chunk * 2))).map (fun i => (i * (chunk * 2), chunk * 2))
          ++ (if buf % (chunk * 2) = chunk then [(buf - chunk, chunk)] else []), .returned) := by
  rw [helperInplaceUnroll2x_eq _ _ hc]
  simp [hm, unrollCalls, fullCalls]

example : helperInplaceUnroll2x 12 4 = ([(0, 8), (8, 4)], .returned) := by decide
example : helperInplaceUnroll2x 16 4 = ([(0, 8), (8, 8)], .returned) := by decide
example : (helperInplaceUnroll2x 12 4).2 = .returned := (helperInplaceUnroll2x_returned_iff (by decide)).2 (by decide)
example : (helperInplaceUnroll2x 14 4).2 = .panicked .notMultiple := by decide
example : ∃ k, (helperInplaceUnroll2x 14 4).2 = .panicked k :=
  helperInplaceUnroll2x_illshaped (by decide) (by decide)

/-- C09.5 out-of-place unrolled -/
theorem helperOopUnroll2x_returned_iff {inp out chunk : Nat} (hc : 1 ≤ chunk) :
    (helperOopUnroll2x inp out chunk).2 = .returned ↔ (inp = out ∧ inp % chunk = 0) := by
  rw [helperOopUnroll2x_eq _ _ _ hc]
  by_cases hio : inp = out
  · subst hio
    by_cases hm : inp % chunk = 0
    · simp [hm]
    · obtain ⟨k, hk⟩ := fftErrorOop_panics chunk inp inp 0 0 (Or.inr (Or.inl hm))
      simp [hm, hk]
  · obtain ⟨k, hk⟩ := fftErrorOop_panics chunk inp out 0 0 (Or.inl hio)
    simp [hio, hk]

theorem helperOopUnroll2x_illshaped {inp out chunk : Nat} (hc : 1 ≤ chunk) (h : inp ≠ out ∨ inp % chunk ≠ 0) :
    ∃ k, (helperOopUnroll2x inp out chunk).2 = .panicked k := by
  have h' : inp ≠ out ∨ inp % chunk ≠ 0 ∨ 0 < 0 := by
    rcases h with h | h
    · exact Or.inl h
    · exact Or.inr (Or.inl h)
  obtain ⟨k, hk⟩ := fftErrorOop_panics chunk inp out 0 0 h'
  refine ⟨k, ?_⟩
  rw [helperOopUnroll2x_eq _ _ _ hc]
  by_cases hio : inp = out
  · subst hio
    have hm : inp % chunk ≠ 0 := by
      rcases h with h | h
      · exact absurd rfl h
      · exact h
    simp [hm, hk]
  · simp [hio, hk]

theorem helperOopUnroll2x_wellshaped (inp out chunk : Nat) (hc : 1 ≤ chunk) (hio : inp = out)
    (hm : inp % chunk = 0) :
    helperOopUnroll2x inp out chunk
      = ((List.range (inp / (chunk * 2))).map (fun i => (i * (chunk * 2), chunk * 2))
          ++ (if inp % (chunk * 2) = chunk then [(inp - chunk, chunk)] else []), .returned) := by
  rw [helperOopUnroll2x_eq _ _ _ hc]
  simp [hm, hio.symm, unrollCalls, fullCalls]

example : helperOopUnroll2x 20 20 4 = ([(0, 8), (8, 8), (16, 4)], .returned) := by decide
example : (helperOopUnroll2x 20 20 4).2 = .returned := (helperOopUnroll2x_returned_iff (by decide)).2 (by decide)
example : (helperOopUnroll2x 20 16 4).2 = .panicked .inOutMismatch := by decide
example : (helperOopUnroll2x 6 6 4).2 = .panicked .notMultiple := by decide
example : ∃ k, (helperOopUnroll2x 20 16 4).2 = .panicked k :=
  helperOopUnroll2x_illshaped (by decide) (Or.inl (by decide))

/-! ## calls made before a panic are still whole, in-bounds chunks -/

/-- C09.6 in-place: even when the outcome is a panic, every call that was made is a full chunk inside the buffer -/
theorem helperInplace_partial_calls_are_full {buf scratch chunk required : Nat} (hc : 1 ≤ chunk) :
    ∀ c ∈ (helperInplace buf scratch chunk required).1, c.2 = chunk ∧ c.1 + c.2 ≤ buf := by
  intro c
  rw [helperInplace_eq _ _ _ _ hc]
  by_cases h1 : scratch < required
  · simp [h1]
  · by_cases h2 : buf % chunk = 0
    · simp only [h1, h2, if_true, if_false]; exact fullCalls_inside
    · simp only [h1, h2, if_false]; exact fullCalls_inside

/-- C09.6 out-of-place: the same, and a call is only ever made when the two buffers have equal length (so the call is
inside both) -/
theorem helperOop_partial_calls_are_full {inp out scratch chunk required : Nat} (hc : 1 ≤ chunk) :
    ∀ c ∈ (helperOop inp out scratch chunk required).1, c.2 = chunk ∧ c.1 + c.2 ≤ inp ∧ inp = out := by
  intro c
  rw [helperOop_eq _ _ _ _ _ hc]
  by_cases h1 : scratch < required
  · simp [h1]
  · by_cases h3 : inp = out
    · subst h3
      by_cases h2 : inp % chunk = 0
      · simp only [h1, h2, if_true, if_false, ne_eq, not_true_eq_false]
        intro h; exact ⟨(fullCalls_inside h).1, (fullCalls_inside h).2, trivial⟩
      · simp only [h1, h2, if_false, ne_eq, not_true_eq_false]
        intro h; exact ⟨(fullCalls_inside h).1, (fullCalls_inside h).2, trivial⟩
    · simp [h1, h3]

/-- C09.6 unrolled in-place: every call is a double chunk or a single chunk, inside the buffer -/
theorem helperInplaceUnroll2x_partial_calls_are_full {buf chunk : Nat} (hc : 1 ≤ chunk) :
    ∀ c ∈ (helperInplaceUnroll2x buf chunk).1, (c.2 = 2 * chunk ∨ c.2 = chunk) ∧ c.1 + c.2 ≤ buf := by
  intro c
  rw [helperInplaceUnroll2x_eq _ _ hc]
  by_cases h2 : buf % chunk = 0
  · simp only [h2, if_true]; exact unrollCalls_inside
  · simp only [h2, if_false]; exact unrollCalls_inside

/-- C09.6 unrolled out-of-place -/
theorem helperOopUnroll2x_partial_calls_are_full {inp out chunk : Nat} (hc : 1 ≤ chunk) :
    ∀ c ∈ (helperOopUnroll2x inp out chunk).1,
      (c.2 = 2 * chunk ∨ c.2 = chunk) ∧ c.1 + c.2 ≤ inp ∧ inp = out := by
  intro c
  rw [helperOopUnroll2x_eq _ _ _ hc]
  by_cases h3 : inp = out
  · subst h3
    by_cases h2 : inp % chunk = 0
    · simp only [h2, if_true, if_false, ne_eq, not_true_eq_false]
      intro h; exact ⟨(unrollCalls_inside h).1, (unrollCalls_inside h).2, trivial⟩
    · simp only [h2, if_false, ne_eq, not_true_eq_false]
      intro h; exact ⟨(unrollCalls_inside h).1, (unrollCalls_inside h).2, trivial⟩
  · simp [h3]

/-- C09.6 all four helpers together -/
theorem helper_partial_calls_are_full {chunk : Nat} (hc : 1 ≤ chunk) :
    (∀ buf scratch required, ∀ c ∈ (helperInplace buf scratch chunk required).1,
        c.2 = chunk ∧ c.1 + c.2 ≤ buf)
    ∧ (∀ inp out scratch required, ∀ c ∈ (helperOop inp out scratch chunk required).1,
        c.2 = chunk ∧ c.1 + c.2 ≤ inp ∧ inp = out)
    ∧ (∀ buf, ∀ c ∈ (helperInplaceUnroll2x buf chunk).1,
        (c.2 = 2 * chunk ∨ c.2 = chunk) ∧ c.1 + c.2 ≤ buf)
    ∧ (∀ inp out, ∀ c ∈ (helperOopUnroll2x inp out chunk).1,
        (c.2 = 2 * chunk ∨ c.2 = chunk) ∧ c.1 + c.2 ≤ inp ∧ inp = out) :=
  ⟨fun _ _ _ => helperInplace_partial_calls_are_full hc,
   fun _ _ _ _ => helperOop_partial_calls_are_full hc,
   fun _ => helperInplaceUnroll2x_partial_calls_are_full hc,
   fun _ _ => helperOopUnroll2x_partial_calls_are_full hc⟩

-- a panicking call that did make (whole, in-bounds) calls first
example : helperInplace 14 0 4 0 = ([(0, 4), (4, 4), (8, 4)], .panicked .notMultiple) := by decide
example : helperInplaceUnroll2x 14 4 = ([(0, 8)], .panicked .notMultiple) := by decide
example : ∀ c ∈ (helperInplace 14 0 4 0).1, c.2 = 4 ∧ c.1 + c.2 ≤ 14 :=
  helperInplace_partial_calls_are_full (by decide)

/-! ## length-0 transforms -/

/-- C09.7 as found: with `chunk = 0` every helper returns at once, whatever the buffer and scratch lengths are (no
validation is performed at all: mismatched in/out lengths and short scratch go unreported) -/
theorem helper_len0 :
    (∀ buf scratch required, helperInplace buf scratch 0 required = ([], .returned))
    ∧ (∀ inp out scratch required, helperOop inp out scratch 0 required = ([], .returned))
    ∧ (∀ buf, helperInplaceUnroll2x buf 0 = ([], .returned))
    ∧ (∀ inp out, helperOopUnroll2x inp out 0 = ([], .returned)) :=
  ⟨fun _ _ _ => by simp [helperInplace], fun _ _ _ _ => by simp [helperOop],
   fun _ => by simp [helperInplaceUnroll2x], fun _ _ => by simp [helperOopUnroll2x]⟩

example : helperOop 7 3 0 0 5 = ([], .returned) := helper_len0.2.1 7 3 0 5

/-! ## the cheap checks come first -/

/-- C09.8 short scratch is detected before any chunk function runs -/
theorem helperInplace_short_scratch_no_calls {buf scratch chunk required : Nat} (h : scratch < required) :
    (helperInplace buf scratch chunk required).1 = [] := by
  by_cases hc : chunk = 0
  · simp [helperInplace, hc]
  · rw [helperInplace_eq _ _ _ _ (by omega)]
    simp [h]

theorem helperOop_short_scratch_no_calls {inp out scratch chunk required : Nat} (h : scratch < required) :
    (helperOop inp out scratch chunk required).1 = [] := by
  by_cases hc : chunk = 0
  · simp [helperOop, hc]
  · rw [helperOop_eq _ _ _ _ _ (by omega)]
    simp [h]

/-- C09.8 so is an input/output length mismatch -/
theorem helperOop_mismatch_no_calls {inp out scratch chunk required : Nat} (h : inp ≠ out) :
    (helperOop inp out scratch chunk required).1 = [] := by
  by_cases hc : chunk = 0
  · simp [helperOop, hc]
  · rw [helperOop_eq _ _ _ _ _ (by omega)]
    by_cases h1 : scratch < required
    · simp [h1]
    · simp [h1, h]

theorem helperOopUnroll2x_mismatch_no_calls {inp out chunk : Nat} (h : inp ≠ out) :
    (helperOopUnroll2x inp out chunk).1 = [] := by
  by_cases hc : chunk = 0
  · simp [helperOopUnroll2x, hc]
  · rw [helperOopUnroll2x_eq _ _ _ (by omega)]
    simp [h]

example : helperInplace 12 2 4 3 = ([], .panicked .scratch) := by decide
example : (helperInplace 12 2 4 3).1 = [] := helperInplace_short_scratch_no_calls (by decide)
example : helperOop 12 8 5 4 3 = ([], .panicked .inOutMismatch) := by decide
example : (helperOop 12 8 5 4 3).1 = [] := helperOop_mismatch_no_calls (by decide)

end RFV
