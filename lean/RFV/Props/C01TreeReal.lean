/-
`real_code_tree_is_dft` over the reals, with no hypothesis left on the number system: the real cosines are a lawful
cosine system (`realCos`) and it is principal (orthogonality: a geometric sum in `Cx ℝ`, which has no zero divisors),
`invR m = 1/m`.  Hence, in exact real arithmetic, every well-formed tree all of whose lengths divide the grid — with the
real scalar-butterfly code at its leaves — computes the unnormalised DFT of its length, ascending frequency.
-/
import Mathlib.Algebra.Ring.GeomSum
import RFV.Props.C01Tree
import RFV.Props.C01BflyReal

open Finset BigOperators Real

namespace RFV

/-- `Cx ℝ` (= ℂ) has no zero divisors -/
theorem cx_real_mul_eq_zero {a b : Cx ℝ} (h : a * b = 0) : a = 0 ∨ b = 0 := by
  have hre : a.re * b.re - a.im * b.im = 0 := by have := congrArg Cx.re h; simpa using this
  have him : a.re * b.im + a.im * b.re = 0 := by have := congrArg Cx.im h; simpa using this
  have hn : (a.re ^ 2 + a.im ^ 2) * (b.re ^ 2 + b.im ^ 2) = 0 := by nlinarith [hre, him]
  rcases mul_eq_zero.mp hn with h1 | h1
  · left
    have h2 : a.re = 0 := by nlinarith [sq_nonneg a.re, sq_nonneg a.im]
    have h3 : a.im = 0 := by nlinarith [sq_nonneg a.re, sq_nonneg a.im]
    ext <;> simp [h2, h3]
  · right
    have h2 : b.re = 0 := by nlinarith [sq_nonneg b.re, sq_nonneg b.im]
    have h3 : b.im = 0 := by nlinarith [sq_nonneg b.re, sq_nonneg b.im]
    ext <;> simp [h2, h3]

section
variable (N : Nat) (hN : 0 < N) (h4 : 4 ∣ N)

/-- powers of a twiddle are twiddles of multiples -/
theorem realTw_pow (inverse : Bool) (invR : Nat → ℝ) (n j : Nat) (hn : 0 < n ∧ n ∣ N) (k : Nat) :
    (cosCtx (realCos N hN h4) inverse invR).tw (j * k) n = (cosCtx (realCos N hN h4) inverse invR).tw j n ^ k := by
  induction k with
  | zero => simp [cosCtx_tw_zero (realCos N hN h4) hN h4 inverse invR n]
  | succ k ih =>
    rw [Nat.mul_succ, cosCtx_tw_add (realCos N hN h4) hN h4 inverse invR n _ _ hn, ih, pow_succ]

/-- the real twiddle of a non-zero index below `n` is not 1 -/
theorem realTw_ne_one (inverse : Bool) (invR : Nat → ℝ) (n j : Nat) (hn : 0 < n ∧ n ∣ N) (hj : 0 < j) (hjn : j < n) :
    (cosCtx (realCos N hN h4) inverse invR).tw j n ≠ 1 := by
  intro h
  have hre : ((cosCtx (realCos N hN h4) inverse invR).tw j n).re = 1 := by rw [h]; rfl
  obtain ⟨hn0, ⟨m, hm⟩⟩ := hn
  have hm0 : 0 < m := by
    rcases Nat.eq_zero_or_pos m with h0 | h0
    · subst h0; omega
    · exact h0
  -- the angle is 2π·j/n
  have hang : ((cosCtx (realCos N hN h4) inverse invR).tw j n).re = cos (2 * π * (j : ℝ) / n) := by
    show (realCos N hN h4).cs ((j % n) * (N / n)) = _
    have e1 : j % n = j := Nat.mod_eq_of_lt hjn
    have e2 : N / n = m := by rw [hm]; exact Nat.mul_div_cancel_left m hn0
    rw [e1, e2]
    show cos (2 * π * ((j * m : Nat) : ℝ) / N) = _
    have hn' : (n : ℝ) ≠ 0 := by exact_mod_cast hn0.ne'
    have hm' : (m : ℝ) ≠ 0 := by exact_mod_cast hm0.ne'
    congr 1
    rw [hm]; push_cast; field_simp
  rw [hang] at hre
  obtain ⟨z, hz⟩ := (Real.cos_eq_one_iff _).mp hre
  -- z·2π = 2π·j/n  ⇒  z·n = j with 0 < j < n: impossible
  have hn' : (n : ℝ) ≠ 0 := by exact_mod_cast hn0.ne'
  have hpi : (2 * π) ≠ 0 := by positivity
  have hzn : (z : ℝ) * n = j := by
    have : (z : ℝ) * (2 * π) * n = 2 * π * j := by rw [hz]; field_simp
    have h2 : (2 * π) * ((z : ℝ) * n) = (2 * π) * j := by linarith
    exact mul_left_cancel₀ hpi h2
  have hzn' : z * (n : Int) = (j : Int) := by exact_mod_cast hzn
  have hzpos : 0 < z := by
    by_contra hneg
    have : z * (n : Int) ≤ 0 := mul_nonpos_of_nonpos_of_nonneg (by omega) (by omega)
    omega
  have : (n : Int) ≤ z * n := by nlinarith
  omega

/-- the real cosine system is principal -/
theorem realCos_orth (inverse : Bool) (invR : Nat → ℝ) (n j : Nat) (hn0 : 0 < n) (hnN : n ∣ N) (hj : 0 < j)
    (hjn : j < n) : ∑ k ∈ range n, (cosCtx (realCos N hN h4) inverse invR).tw (j * k) n = 0 := by
  set w := (cosCtx (realCos N hN h4) inverse invR).tw j n with hw
  have hpow : ∀ k, (cosCtx (realCos N hN h4) inverse invR).tw (j * k) n = w ^ k :=
    realTw_pow N hN h4 inverse invR n j ⟨hn0, hnN⟩
  simp only [hpow]
  have hwn : w ^ n = 1 := by
    rw [← hpow n]
    -- tw (j·n) n = tw 0 n = 1
    rw [cosCtx_tw (realCos N hN h4) hN h4, Nat.mul_mod_left, Nat.zero_mul]
    exact eZ_zero (realCos N hN h4) hN h4 inverse
  have hgeom := geom_sum_mul w n
  rw [hwn, sub_self] at hgeom
  rcases cx_real_mul_eq_zero hgeom with h | h
  · exact h
  · exact absurd (sub_eq_zero.mp h) (realTw_ne_one N hN h4 inverse invR n j ⟨hn0, hnN⟩ hj hjn)

/-- **in exact real arithmetic**: every well-formed tree whose lengths divide the grid `N`, with the real
scalar-butterfly code at its leaves, computes exactly the unnormalised DFT of its length — no hypothesis on the number
system is left -/
theorem real_arithmetic_tree_is_dft (inverse : Bool) (t : Recipe) (hg : t.Good (fun n => 0 < n ∧ n ∣ N))
    (x : Array (Cx ℝ)) (hx : x.size = t.len) :
    t.semP (realCos N hN h4) inverse (fun m => 1 / (m : ℝ)) x =
      semDft (cosCtx (realCos N hN h4) inverse (fun m => 1 / (m : ℝ))) t.len x :=
  real_code_tree_is_dft (realCos N hN h4) hN h4 inverse _
    (fun m hm _ => by
      have : (m : ℝ) ≠ 0 := by exact_mod_cast hm.ne'
      field_simp)
    (fun n j hn0 hnN hj hjn => realCos_orth N hN h4 inverse _ n j hn0 hnN hj hjn) t hg x hx

end

/-- non-vacuity: a 12-point mixed-radix tree (4 × 3) on the grid 12 is well-formed -/
example : (Recipe.mixedRadix (.bfly 4) (.bfly 3)).Good (fun n => 0 < n ∧ n ∣ 12) :=
  .mixedRadix _ _ (.bfly 4 ⟨by decide, by decide⟩) (.bfly 3 ⟨by decide, by decide⟩) ⟨by decide, by decide⟩

end RFV
