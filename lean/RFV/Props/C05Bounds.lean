/-
C05 (quasi-linear work and linear workspace) — planner-wide bounds.  Theorems only; proofs in
`Proofs/BoundLemmas.lean` (invariants closed under the planner's constructions) and `Proofs/PlanScalar.lean`.

  (1) `planScalar_noNaive`, `planSse_noNaive`, `avx_noNaive`   no naive `O(n²)` node is ever planned
  (2) `planScalar_primeDepth`, `planSse_primeDepth`            at most ONE Rader/Bluestein node on any root-to-leaf path
                                                               (none at all when every prime factor of n is ≤ 31)
  (3) `planScalar_scratch_le`, `planSse_scratch_le`            all three advertised scratch lengths are ≤ 8·n
  (4) `planScalar_ops_le`                                      ops ≤ 64 · n · ⌊log₂ n⌋   (in fact ops + 6n ≤ …)
-/
import RFV.Proofs.BoundLemmas
import RFV.Proofs.PrimitiveRoot

namespace RFV

/-- a predicate preserved by the scalar planner's constructions holds of the planned tree -/
theorem planScalar_closed (Q : Recipe → Prop) (hQ : ScalarClosed Q) (n : Nat) (r : Recipe)
    (h : planScalar n = .ok r) : r.len = n ∧ Q r := by
  obtain ⟨r', h1, h2, h3⟩ := scalarForLen_okQ Q hQ n (planFuel n) (by unfold planFuel; omega)
  unfold planScalar at h
  rw [h] at h1; cases h1; exact ⟨h2, h3⟩

theorem planSse_closed (Q : Recipe → Prop) (hQ : SseClosed Q) (n : Nat) (r : Recipe)
    (h : planSse n = .ok r) : r.len = n ∧ Q r := by
  obtain ⟨r', h1, h2, h3⟩ := sseForLen_okQ Q hQ n (planFuel n) (by unfold planFuel; omega)
  unfold planSse at h
  rw [h] at h1; cases h1; exact ⟨h2, h3⟩

/-! ## (1) no naive node -/

theorem planScalar_noNaive (n : Nat) (r : Recipe) (h : planScalar n = .ok r) : r.NoNaive :=
  (planScalar_closed _ noNaive_scalarClosed n r h).2

theorem planSse_noNaive (n : Nat) (r : Recipe) (h : planSse n = .ok r) : r.NoNaive :=
  (planSse_closed _ noNaive_sseClosed n r h).2

/-- AVX: whatever is built from a cache of non-naive trees is non-naive, and so is the new cache — hence, by
induction over the calls, every tree reachable from the empty cache -/
theorem avx_noNaive (ty : ElemTy) (avx2 : Bool) (fuel : Nat) (c : InstCache) (len : Nat) (r : Recipe)
    (c' : InstCache) (h : avxPlanAndConstruct ty avx2 fuel c len = .ok (r, c'))
    (hc : ∀ e ∈ c, e.2.NoNaive) : r.NoNaive ∧ ∀ e ∈ c', e.2.NoNaive :=
  avxPlanAndConstruct_preserves _ noNaive_avxClosed ty avx2 fuel c len r c' h hc

theorem avx_noNaive_empty (ty : ElemTy) (avx2 : Bool) (fuel len : Nat) (r : Recipe) (c' : InstCache)
    (h : avxPlanAndConstruct ty avx2 fuel [] len = .ok (r, c')) : r.NoNaive ∧ ∀ e ∈ c', e.2.NoNaive :=
  avx_noNaive ty avx2 fuel [] len r c' h (by intro e he; simp at he)

example : (Recipe.raders (.radixN [7, 6] (.bfly 24))).NoNaive := by simp [Recipe.NoNaive]
example : ¬ (Recipe.mixedRadix (.dft 37) (.bfly 4)).NoNaive := by simp [Recipe.NoNaive]

/-! ## (2) prime depth -/

/-- on every root-to-leaf path of a scalar-planned tree there is at most one Rader/Bluestein node
(a Rader inner length `p-1` is 23-smooth, a Bluestein inner length is `2^k` or `3·2^k`, and primes `≤ 31` are
butterflies); with all prime factors of `n` at most 31 there is none -/
theorem planScalar_primeDepth (n : Nat) (r : Recipe) (h : planScalar n = .ok r) :
    r.primeDepth ≤ 1 ∧ ((∀ p, Nat.Prime p → p ∣ n → p ≤ 31) → r.primeDepth = 0) := by
  obtain ⟨hl, hd⟩ := planScalar_closed _ depthOK_scalarClosed n r h
  exact ⟨hd.1, fun hs => hd.2 (hl ▸ hs)⟩

theorem planSse_primeDepth (n : Nat) (r : Recipe) (h : planSse n = .ok r) :
    r.primeDepth ≤ 1 ∧ ((∀ p, Nat.Prime p → p ∣ n → p ≤ 31) → r.primeDepth = 0) := by
  obtain ⟨hl, hd⟩ := planSse_closed _ depthOK_sseClosed n r h
  exact ⟨hd.1, fun hs => hd.2 (hl ▸ hs)⟩

example : (Recipe.raders (.radixN [7, 6] (.bfly 24))).primeDepth = 1 := by decide

/-! ## (3) linear workspace -/

theorem planScalar_scratch_le (ty : ElemTy) (n : Nat) (r : Recipe) (s : Spec) (h : planScalar n = .ok r)
    (hs : r.spec ty = .ok s) : s.inplace ≤ 12 * n + 64 ∧ s.oop ≤ 12 * n + 64 ∧ s.immut ≤ 12 * n + 64 := by
  obtain ⟨hl, _, hb⟩ := planScalar_closed _
    (scratchOK_scalarClosed ty (fun p hp => primitiveRoot_isSome p hp)) n r h
  obtain ⟨⟨h1, h2, h3⟩, _⟩ := hb s hs
  rw [hl] at h1 h2 h3
  exact ⟨by omega, by omega, by omega⟩

/-- the sharper form the proof gives: `8·n` in general; `inplace ≤ n`, `oop = 0`, `immut ≤ 2n` when all prime
factors of `n` are at most 31 -/
theorem planScalar_scratch_le' (ty : ElemTy) (n : Nat) (r : Recipe) (s : Spec) (h : planScalar n = .ok r)
    (hs : r.spec ty = .ok s) :
    (s.inplace ≤ 8 * n ∧ s.oop ≤ 8 * n ∧ s.immut ≤ 8 * n) ∧
    ((∀ p, Nat.Prime p → p ∣ n → p ≤ 31) → s.inplace ≤ n ∧ s.oop = 0 ∧ s.immut ≤ 2 * n) := by
  obtain ⟨hl, _, hb⟩ := planScalar_closed _
    (scratchOK_scalarClosed ty (fun p hp => primitiveRoot_isSome p hp)) n r h
  have := hb s hs
  rw [hl] at this
  exact this

theorem planSse_scratch_le (ty : ElemTy) (n : Nat) (r : Recipe) (s : Spec) (h : planSse n = .ok r)
    (hs : r.spec ty = .ok s) : s.inplace ≤ 12 * n + 64 ∧ s.oop ≤ 12 * n + 64 ∧ s.immut ≤ 12 * n + 64 := by
  obtain ⟨hl, _, hb⟩ := planSse_closed _
    (scratchOK_sseClosed ty (fun p hp => primitiveRoot_isSome p hp)) n r h
  obtain ⟨⟨h1, h2, h3⟩, _⟩ := hb s hs
  rw [hl] at h1 h2 h3
  exact ⟨by omega, by omega, by omega⟩

example : (Recipe.bluesteins 37 (.radix4 1 (.bfly 24))).spec .f32 = .ok ⟨37, 192, 192, 192⟩ := by decide

/-! ## (4) quasi-linear work -/

theorem planScalar_ops_le (n : Nat) (r : Recipe) (hn : 2 ≤ n) (h : planScalar n = .ok r) :
    r.ops ≤ 64 * n * Nat.log2 n := by
  obtain ⟨hl, ho⟩ := planScalar_closed _ opsOK_scalarClosed n r h
  have := ho.1 (by omega)
  rw [hl] at this
  omega

/-- the invariant the proof carries: `6n` to spare, and constant 17 instead of 64 when all prime factors are `≤ 31` -/
theorem planScalar_ops_le' (n : Nat) (r : Recipe) (hn : 2 ≤ n) (h : planScalar n = .ok r) :
    r.ops + 6 * n ≤ 64 * n * Nat.log2 n ∧
    ((∀ p, Nat.Prime p → p ∣ n → p ≤ 31) → r.ops + 6 * n ≤ 17 * n * Nat.log2 n) := by
  obtain ⟨hl, ho⟩ := planScalar_closed _ opsOK_scalarClosed n r h
  have h1 := ho.1 (by omega)
  have h2 := ho.2
  rw [hl] at h1 h2
  exact ⟨h1, fun hs => h2 hs hn⟩

example : (Recipe.raders (.radixN [7, 6] (.bfly 24))).ops = 97156 := by decide
example : (Recipe.raders (.radixN [7, 6] (.bfly 24))).ops ≤ 64 * 1009 * Nat.log2 1009 := by decide

end RFV
