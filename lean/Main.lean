/-
Line-protocol driver for the executable model: one request per line on stdin, one answer per line on stdout.
Imports only the Mathlib-free `RFV.Model.*` files so that it links as a native executable.
-/
import RFV.Model.Arith
import RFV.Model.Plan
import RFV.Model.Avx
import RFV.Model.Spec
import RFV.Model.Validate
import RFV.Model.Fp
import RFV.Model.FpFin
import RFV.Model.Cache
import RFV.Model.Decision
import RFV.Model.Exec
import RFV.Model.Ops
import RFV.Model.MulRem
import RFV.Model.Loops
import RFV.Gen.Butterflies

open RFV

def fmtFactors (f : PrimeFactors) : String :=
  let os := " ".intercalate (f.others.map (fun x => s!"{x.value}:{x.count}"))
  s!"{f.p2} {f.p3} [{os}] {f.total} {f.distinct}"

def fmtExcept (r : Except String String) : String :=
  match r with
  | .ok s => s
  | .error e => s!"ERR {e}"

def parseTy (s : String) : Option ElemTy :=
  match s with
  | "f32" => some .f32
  | "f64" => some .f64
  | "other" => some .other
  | _ => none

/-- the tree a fresh planner of the given kind builds for `n` (AVX: with avx2, as on the check machine) -/
def builtTree (planner : String) (ty : ElemTy) (n : Nat) : Except String Recipe :=
  match planner with
  | "scalar" => planScalar n
  | "sse" => planSse n
  | "avx" => (avxPlanAndConstruct ty true (planFuel n) [] n).map (·.1)
  | "avx-noavx2" => (avxPlanAndConstruct ty false (planFuel n) [] n).map (·.1)
  | _ => .error "bad planner"

/-- the hypotheses of `gpCtx_lawful` that can be checked cheaply at run time: `8 ∣ N`, `N ∣ p - 1`, `ω^N = 1`, and
`ω^(N/q) ≠ 1` for every prime `q ∣ N` (so the order of ω is exactly N); primality of `p` by trial division -/
def gpParamsOk (p N w : Nat) : Bool :=
  N % 8 == 0 && p ≥ 2 && (p - 1) % N == 0 && isPrimeNat p && modPow w N p == 1 &&
    (distinctPrimeFactors N).all (fun q => modPow w (N / q) p != 1)

/-- `fp;p;N;omega;fwd|inv;tree;re im re im …` -/
def answerFp (fields : List String) : String :=
  match fields with
  | [_, p, n, w, dir, tree, vals] =>
    match p.toNat?, n.toNat?, w.toNat?, Recipe.parse tree with
    | some p, some n, some w, some t =>
      let vs := (vals.splitOn " ").filterMap (fun (s : String) => s.toNat?)
      if (t.spec .other).toOption.isNone then "CTOR-PANIC" else
      if t.len = 0 then "" else
      -- the proved instance (Model/FpFin.lean, Proofs/FpLawful.lean); its number-theoretic side conditions are re-checked here
      if !(gpParamsOk p n w) then "BAD-FIELD-PARAMETERS" else
      " ".intercalate ((runGpD p n w (dir == "inv") t vs).map toString)
    | _, _, _, _ => "bad-op"
  | _ => "bad-op"

def fmtKeys (ks : List Nat) : String := "[" ++ " ".intercalate (ks.map toString) ++ "]"

/-- `hist;<scalar|sse|avx|avx-noavx2>;<f32|f64>;len:dir,len:dir,…;cand cand …`
answer per step: `recipe-or-plan | len inplace oop immut | fwd keys | inv keys`, steps joined by ` # ` -/
def answerHist (fields : List String) : String :=
  match fields with
  | [_, planner, ty, steps, cands] =>
    match parseTy ty with
    | none => "bad-op"
    | some ty =>
      let kind : PlannerKind := match planner with
        | "scalar" => .scalar | "sse" => .sse | "avx" => .avx true | _ => .avx false
      let reqs : List (Nat × Bool) := (steps.splitOn ",").filterMap (fun (st : String) =>
        match st.splitOn ":" with
        | [n, d] => n.toNat?.map (fun n => (n, d == "inv"))
        | _ => none)
      let cs : List Nat := (cands.splitOn " ").filterMap (fun (x : String) => x.toNat?)
      let restrict (ks : List Nat) : List Nat := match kind with
        | .avx _ => ks.filter (fun k => cs.contains k)
        | _ => ks
      let rec go (s : PlannerState) : List (Nat × Bool) → List String
        | [] => []
        | (len, inv) :: rest =>
          let planText : String := match kind with
            | .scalar => fmtExcept ((planScalar len).map Recipe.text)
            | .sse => fmtExcept ((planSse len).map Recipe.text)
            | .avx a2 => fmtExcept ((avxPlanFft ty a2 (s.cache inv).contains len).map AvxPlan.text)
          match planStep kind ty s len inv with
          | .error e => [s!"{planText} | ERR {e}"]
          | .ok (inst, s') =>
            let sp := fmtExcept ((inst.spec ty).map Spec.text)
            s!"{planText} | {sp} | {fmtKeys (restrict s'.fwd.keys)} | {fmtKeys (restrict s'.inv.keys)}" :: go s' rest
      " # ".intercalate (go PlannerState.empty reqs)
  | _ => "bad-op"

def natList (s : String) : List Nat := (s.splitOn " ").filterMap (fun (x : String) => x.toNat?)
def fmtNats (l : List Nat) : String := " ".intercalate (l.map toString)

/-- `loops;<op>;…`: the literal index loops of Model/Loops.lean on the identity input `0..len` (output pre-filled with 999999) -/
def answerLoops (fields : List String) : String :=
  let ident (len : Nat) : Array Nat := (List.range len).toArray
  let fill (len : Nat) : Array Nat := Array.replicate len 999999
  let shw (r : Option (Array Nat)) : String := match r with | some a => fmtNats a.toList | none => "PANIC"
  match fields with
  | [_, "bitrev", d, h, len] =>
    match d.toNat?, h.toNat?, len.toNat? with
    | some d, some h, some len => shw (Loops.bitreversedTranspose d h (ident len) (fill len))
    | _, _, _ => "bad-op"
  | [_, "factr", h, fs] =>
    match h.toNat? with
    | some h =>
      let fs := natList fs
      let len := h * fs.foldl (· * ·) 1
      let tf := Loops.transposeFactors fs
      let d := match tf.head? with | some x => x.1 | none => 2
      shw (Loops.factorTranspose d h (ident len) (fill len) tf)
    | none => "bad-op"
  | [_, "gtin", w, h] =>
    match w.toNat?, h.toNat? with
    | some w, some h =>
      let (gw, gh) := if w > h then (h, w) else (w, h)
      match Loops.reindexInput gw gh (ident (w * h)) (fill (w * h)) with
      | some a => s!"{gw} {gh} | {fmtNats a.toList}"
      | none => "PANIC"
    | _, _ => "bad-op"
  | [_, "gtout", w, h] =>
    match w.toNat?, h.toNat? with
    | some w, some h =>
      let (gw, gh) := if w > h then (h, w) else (w, h)
      match Loops.reindexOutput gw gh (ident (w * h)) (fill (w * h)) with
      | some a => s!"{gw} {gh} | {fmtNats a.toList}"
      | none => "PANIC"
    | _, _ => "bad-op"
  | [_, "gtsmall", w, h] =>
    match w.toNat?, h.toNat? with
    | some w, some h =>
      match Loops.gtSmallInverses w h with
      | some (wInv, hInv) => fmtNats (Loops.gtSmallInputMap w h ++ Loops.gtSmallOutputMap w h wInv hInv)
      | none => "PANIC"
    | _, _ => "bad-op"
  | _ => "bad-op"

def answer (line : String) : String :=
  if line.startsWith "loops;" then answerLoops (line.trimAscii.toString.splitOn ";") else
  if line.startsWith "hist;" then answerHist (line.trimAscii.toString.splitOn ";") else
  if line.startsWith "fp;" then answerFp (line.trimAscii.toString.splitOn ";") else
  match line.trimAscii.toString.splitOn " " with
  | ["pf", n] =>
    match n.toNat? with
    | some n => fmtExcept ((PrimeFactors.compute n).map fmtFactors)
    | none => "bad-op"
  | ["part", n] =>
    match n.toNat? with
    | some n =>
      fmtExcept (do
        let f ← PrimeFactors.compute n
        let (l, r) ← f.partition
        pure s!"{l.product} {r.product} | {fmtFactors l} | {fmtFactors r}")
    | none => "bad-op"
  | ["pfr", n] =>
    match n.toNat? with
    | some n =>
      let f := PartialFactors.compute n
      s!"{f.p2} {f.p3} {f.p5} {f.p7} {f.p11} {f.other}"
    | none => "bad-op"
  | ["proot", n] =>
    match n.toNat? with
    | some n => (match primitiveRoot n with | some g => s!"{g}" | none => "none")
    | none => "bad-op"
  | ["dpf", n] =>
    match n.toNat? with
    | some n => " ".intercalate ((distinctPrimeFactors n).map toString)
    | none => "bad-op"
  | ["recipe", "scalar", n] =>
    match n.toNat? with
    | some n => fmtExcept ((planScalar n).map Recipe.text)
    | none => "bad-op"
  | ["recipe", "sse", n] =>
    match n.toNat? with
    | some n => fmtExcept ((planSse n).map Recipe.text)
    | none => "bad-op"
  | ["recipe", "avx32", n] =>
    match n.toNat? with
    | some n => fmtExcept ((avxPlanFft .f32 true (fun _ => false) n).map AvxPlan.text)
    | none => "bad-op"
  | ["recipe", "avx32n", n] =>
    match n.toNat? with
    | some n => fmtExcept ((avxPlanFft .f32 false (fun _ => false) n).map AvxPlan.text)
    | none => "bad-op"
  | ["recipe", "avx64n", n] =>
    match n.toNat? with
    | some n => fmtExcept ((avxPlanFft .f64 false (fun _ => false) n).map AvxPlan.text)
    | none => "bad-op"
  | ["recipe", "avx64", n] =>
    match n.toNat? with
    | some n => fmtExcept ((avxPlanFft .f64 true (fun _ => false) n).map AvxPlan.text)
    | none => "bad-op"
  | ["spec", planner, ty, n] =>
    match n.toNat?, parseTy ty with
    | some n, some ty => fmtExcept ((builtTree planner ty n).bind (fun t => (t.spec ty).map Spec.text))
    | _, _ => "bad-op"
  | ["tree", planner, ty, n] =>
    match n.toNat?, parseTy ty with
    | some n, some ty => fmtExcept ((builtTree planner ty n).map Recipe.text)
    | _, _ => "bad-op"
  | ["calls", algo, entry, len, a0, a1, a2, a3, b0, b1, b2, b3] =>
    match (([len, a0, a1, a2, a3, b0, b1, b2, b3].map (fun (x : String) => x.toNat?)).mapM id) with
    | some [len, a0, a1, a2, a3, b0, b1, b2, b3] =>
      let s0 : Spec := ⟨a0, a1, a2, a3⟩
      let s1 : Spec := ⟨b0, b1, b2, b3⟩
      let al : Option Algo := match algo with
        | "MixedRadix" => some .mixedRadix | "MixedRadixSmall" => some .mixedRadixSmall
        | "GoodThomas" => some .goodThomas | "GoodThomasSmall" => some .goodThomasSmall
        | "Raders" => some .raders | "Bluesteins" => some (.bluesteins len)
        | "RadixN" => some .radixN | "Radix4" => some .radix4 | "Radix3" => some .radix3
        | "AvxMixedRadix" => some .avxMixedRadix | "AvxRaders" => some .avxRaders
        | "AvxBluesteins" => some (.avxBluesteins len) | "SseRadix4" => some .sseRadix4
        | _ => none
      let en : Option EntryKind := match entry with
        | "inplace" => some .inplace | "oop" => some .oop | "immut" => some .immut | _ => none
      match al, en with
      | some al, some en =>
        let ctorPanic : Bool := match al with
          | .mixedRadixSmall => (smallAsserts "MixedRadixSmall" s0 s1).toOption.isNone
          | .goodThomasSmall => (smallAsserts "GoodThomasAlgorithmSmall" s0 s1).toOption.isNone
          | _ => false
        if ctorPanic then "CTOR-PANIC" else
        let adv := advertised al en len s0 s1
        -- a call handed less scratch than its callee advertises is marked, as the recording mocks of the harness do
        s!"adv={adv} | " ++ "; ".intercalate ((calls al en len s0 s1 adv).map (fun c =>
          c.text ++ (if c.scratch.len < c.need s0 s1 then " STARVED" else "")))
      | _, _ => "bad-op"
    | _ => "bad-op"
  | "bflyrun" :: n :: dir :: p :: g :: w :: vals =>
    -- K12: the extracted program of Butterfly{n} run over GF(p), constants cos(2π a / grid) = cosE on the field's grid g
    match n.toNat?, p.toNat?, g.toNat?, w.toNat? with
    | some n, some p, some g, some w =>
      match Gen.allButterflies.find? (fun P => P.n == n && P.inverse == (dir == "inv")) with
      | none => "no-such-butterfly"
      | some P =>
        if !(gpParamsOk p g w) || g % P.grid != 0 then "BAD-FIELD-PARAMETERS" else
        let vs := vals.filterMap (fun (s : String) => s.toNat?)
        let cs : Nat → Zp p := fun a => ⟨cosE p g w (a * (g / P.grid))⟩
        let x : Nat → Zp p := fun j => ⟨vs.getD j 0 % p⟩
        " ".intercalate ((P.outputs cs x).map (fun (z : Zp p) => toString z.v))
    | _, _, _, _ => "bad-op"
  | ["mulrem", a, b, d] =>
    match a.toNat?, b.toNat?, d.toNat? with
    | some a, some b, some d => mulRemLine a b d
    | _, _, _ => "bad-op"
  | ["mulremscan", b, d, lo, hi] =>
    match b.toNat?, d.toNat?, lo.toNat?, hi.toNat? with
    | some b, some d, some lo, some hi => mulRemScanLine b d lo hi
    | _, _, _, _ => "bad-op"
  | ["ops", "scalar", n] =>
    match n.toNat? with
    | some n => fmtExcept ((planScalar n).map (fun r => toString r.ops))
    | none => "bad-op"
  | ["decide", cfa, cfs, mask, ty] =>
    match cfa.toNat?, cfs.toNat?, mask.toNat?, parseTy ty with
    | some cfa, some cfs, some m, some ty =>
      -- mask bits: 1 = avx, 2 = fma, 4 = avx2, 8 = sse4.1 (the check machine has all four)
      let cpu : CpuFeatures := { avx := m % 2 = 1, fma := (m / 2) % 2 = 1, avx2 := (m / 4) % 2 = 1, sse41 := (m / 8) % 2 = 1 }
      let cf : CargoFeatures := { avx := cfa = 1, sse := cfs = 1 }
      let f := fun (b : Bool) => if b then "ok" else "err"
      s!"avx={f (avxPlannerNew cf cpu ty)} sse={f (ssePlannerNew cf cpu ty)} choice={(choosePlanner cf cpu ty).text}"
    | _, _, _, _ => "bad-op"
  | ["helper", kind, a, b, c, d, e] =>
    match a.toNat?, b.toNat?, c.toNat?, d.toNat?, e.toNat? with
    | some a, some b, some c, some d, some e =>
      -- a = data/input len, b = output len (ignored for inplace), c = scratch len, d = chunk, e = required scratch
      let r := match kind with
        | "inplace" => helperInplace a c d e
        | "oop" => helperOop a b c d e
        | "immut" => helperOop a b c d e
        | "inplace2x" => helperInplaceUnroll2x a d
        | "oop2x" => helperOopUnroll2x a b d
        | "immut2x" => helperOopUnroll2x a b d
        | _ => ([], Outcome.returned)
      s!"{r.2.text} {callsText r.1}"
    | _, _, _, _, _ => "bad-op"
  | _ => "bad-op"

partial def loop (h : IO.FS.Stream) (out : IO.FS.Stream) : IO Unit := do
  let line ← h.getLine
  if line.isEmpty then return ()
  out.putStrLn (answer line)
  loop h out

def main : IO Unit := do
  let stdin ← IO.getStdin
  let stdout ← IO.getStdout
  loop stdin stdout
