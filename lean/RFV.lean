import RFV.Model.Arith
import RFV.Model.Plan
import RFV.Model.Avx
