import RFV.Model.Arith
import RFV.Model.Plan
import RFV.Model.Avx
import RFV.Model.Validate
import RFV.Model.Sem
import RFV.Model.Fp
import RFV.Model.Cache
import RFV.Model.Decision
