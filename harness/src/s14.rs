//! search for C14 on the real code: for third element types (operation-counting, size 16; double-double) every SIMD
//! planner declines, FftPlanner falls back to the portable planner, uses ring operations only, and is correct.
use crate::etypes::*;
use crate::planners::dir_name;
use crate::refdft::*;
use crate::report::*;
use crate::snum::bound;
use crate::util::*;
use rayon::prelude::*;
use rustfft::num_complex::Complex;
use rustfft::num_traits::ToPrimitive;
use rustfft::{FftDirection, FftNum, FftPlanner, FftPlannerAvx, FftPlannerScalar, FftPlannerSse};

fn one<T: FftNum + ToPrimitive>(tyname: &str, mk: impl Fn(f64) -> T, n: usize, dir: FftDirection, rng: &mut Rng, rep: &mut Report) {
    rep.evaluations += 1;
    let tag = format!("{}/n={}/{}", tyname, n, dir_name(dir));
    let r = catch(|| {
        assert!(FftPlannerAvx::<T>::new().is_err(), "FftPlannerAvx accepted a third element type");
        assert!(FftPlannerSse::<T>::new().is_err(), "FftPlannerSse accepted a third element type");
        let mut p = FftPlanner::<T>::new();
        assert_eq!(p.verif_kind(), "scalar", "FftPlanner did not fall back to the portable planner");
        let fft = p.plan_fft(n, dir);
        let fft2 = FftPlannerScalar::<T>::new().plan_fft(n, dir);
        assert_eq!(crate::k3::spec_text(&fft), crate::k3::spec_text(&fft2), "automatic and scalar planner differ");
        let x: Vec<(f64, f64)> = (0..n).map(|_| (((rng.normal()) as f32) as f64, ((rng.normal()) as f32) as f64)).collect();
        let mut buf: Vec<Complex<T>> = x.iter().map(|&(a, b)| Complex::new(mk(a), mk(b))).collect();
        let before = nonring_get();
        fft.process(&mut buf);
        let used_nonring = nonring_get() - before;
        let out: Vec<(f64, f64)> = buf.iter().map(|c| (c.re.to_f64().unwrap(), c.im.to_f64().unwrap())).collect();
        (x, out, used_nonring)
    });
    match r {
        Err(e) => rep.fail(format!("third-type {}", tag), e),
        Ok((x, out, used_nonring)) => {
            if n >= 2 {
                rep.nontrivial += 1;
            }
            if used_nonring > 0 {
                rep.fail(format!("non-ring-op {}", tag), format!("{} calls of abs/signum/rem/comparison on the element type", used_nonring));
            }
            let reference = ref_dft(&x, dir == FftDirection::Inverse);
            let mut num = 0.0;
            let mut den = 0.0;
            for (o, r) in out.iter().zip(&reference) {
                num += (o.0 - r.0).powi(2) + (o.1 - r.1).powi(2);
                den += r.0 * r.0 + r.1 * r.1;
            }
            let e = if den == 0.0 { num } else { (num / den).sqrt() };
            let b = bound(f64::EPSILON, n);
            if !(e <= b + 4.0 * f64::EPSILON) {
                rep.fail(format!("accuracy {}", tag), format!("relative L2 error {:e} > {:e}", e, b));
            }
        }
    }
}

fn one32(n: usize, dir: FftDirection, rng: &mut Rng, rep: &mut Report) {
    rep.evaluations += 1;
    let tag = format!("newtype-f32(4 bytes)/n={}/{}", n, dir_name(dir));
    let r = catch(|| {
        assert!(FftPlannerAvx::<New32>::new().is_err(), "FftPlannerAvx accepted a third element type");
        assert!(FftPlannerSse::<New32>::new().is_err(), "FftPlannerSse accepted a third element type");
        let mut p = FftPlanner::<New32>::new();
        assert_eq!(p.verif_kind(), "scalar", "FftPlanner did not fall back to the portable planner");
        let fft = p.plan_fft(n, dir);
        let mut buf: Vec<Complex<New32>> = (0..n).map(|_| Complex::new(New32(rng.normal() as f32), New32(rng.normal() as f32))).collect();
        fft.process(&mut buf);
        buf.iter().all(|c| c.re.0.is_finite() && c.im.0.is_finite())
    });
    match r {
        Err(e) => rep.fail(format!("third-type {}", tag), e),
        Ok(fin) => {
            if n >= 2 {
                rep.nontrivial += 1;
            }
            if !fin {
                rep.fail(format!("third-type {}", tag), "non-finite output".into());
            }
        }
    }
}

pub fn run(args: &[String]) {
    let hi: usize = args[0].parse().unwrap();
    let seed = seed_from_env() ^ 0x1414;
    let shared = Shared::new();
    // process history: the automatic planner is first used at f32 and f64 (SIMD back ends), and only then at the third
    // types — a back-end choice remembered across element types would show up below
    {
        let mut rep = Report::default();
        let r = crate::util::catch(|| {
            let a = rustfft::FftPlanner::<f32>::new().plan_fft_forward(64);
            let b = rustfft::FftPlanner::<f64>::new().plan_fft_inverse(100);
            a.len() + b.len()
        });
        rep.evaluations += 1;
        rep.nontrivial += 1;
        if r != Ok(164) {
            rep.fail("history f32/f64 planners first".into(), format!("{:?}", r));
        }
        shared.merge(rep);
    }
    (0..hi).into_par_iter().for_each(|n| {
        let mut rep = Report::default();
        let mut rng = Rng::new(seed ^ (n as u64) * 13);
        for dir in [FftDirection::Forward, FftDirection::Inverse] {
            one::<OpCount>("OpCount(16 bytes)", OpCount::new, n, dir, &mut rng, &mut rep);
            one::<Dd>("double-double", Dd::new, n, dir, &mut rng, &mut rep);
            if n < 300 {
                // same size as f32 / f64 but a different type (tolerance of the f32 newtype is f32's)
                one::<New64>("newtype-f64(8 bytes)", New64, n, dir, &mut rng, &mut rep);
                // a type whose zero() is not the all-zero bit pattern (values created by zeroing memory decode to NaN)
                one::<Inv64>("inverted-bits-f64 (zero is not all-zero bits)", Inv64::new, n, dir, &mut rng, &mut rep);
                one32(n, dir, &mut rng, &mut rep);
            }
        }
        if n == 100 {
            rep.sample("n=100: FftPlanner::<OpCount> and ::<Dd>: SIMD planners Err, verif_kind()=scalar, only ring ops, output vs double-double reference".into());
        }
        shared.merge(rep);
    });
    shared.into_inner().print("S14-third-types", "one case per (element type, n, direction); non-trivial = n >= 2");
}
