//! T7 (translator by execution): the real scalar butterflies of /repo run on a *symbolic* element type.
//! Every `+ - * neg` performed on a `Sym` is recorded in a thread-local arena; inputs are symbolic variables and every
//! constant converted from f64 (`compute_twiddle`, `root2`) is classified as the grid cosine `cos(2*pi*a/N)` it is
//! (fail closed when it is not one).  The straight-line program that results — the literal operation sequence of
//! `ButterflyN::perform_fft_contiguous` — is printed as Lean data (`lean/RFV/Gen/Butterflies.lean`).
//!
//! `bfx gen`            print the Lean file for all scalar butterflies, both directions
//! `bfx k12 <cases>`    correspondence K12: request lines `bflyrun n dir p N w vals…` and the answers of the REAL
//!                      butterflies at T = GF(p) (the model driver runs the extracted program on the same line)
use crate::fp::{self, Fp};
use crate::util::*;
use rustfft::algorithm::butterflies::*;
use rustfft::num_complex::Complex;
use rustfft::num_traits::{FromPrimitive, Num, One, Signed, ToPrimitive, Zero};
use rustfft::{Fft, FftDirection};
use std::cell::{Cell, RefCell};
use std::io::Write;
use std::ops::*;

#[derive(Clone, Copy, Debug, PartialEq)]
pub enum Node {
    Inp(u32),
    Const(u64), // f64 bits
    Add(u32, u32),
    Sub(u32, u32),
    Mul(u32, u32),
    Neg(u32),
}

thread_local! {
    static ARENA: RefCell<Vec<Node>> = RefCell::new(Vec::new());
    static BAD: Cell<u64> = Cell::new(0);     // non-ring operations (comparisons, division, abs, …): data-dependent control flow
}
fn push(n: Node) -> Sym {
    ARENA.with(|a| {
        let mut a = a.borrow_mut();
        a.push(n);
        Sym((a.len() - 1) as u32)
    })
}
fn bad() {
    BAD.with(|c| c.set(c.get() + 1));
}

#[derive(Clone, Copy, Debug)]
pub struct Sym(pub u32);
impl PartialEq for Sym {
    fn eq(&self, o: &Sym) -> bool {
        bad();
        self.0 == o.0
    }
}
impl PartialOrd for Sym {
    fn partial_cmp(&self, o: &Sym) -> Option<std::cmp::Ordering> {
        bad();
        self.0.partial_cmp(&o.0)
    }
}
macro_rules! sym_bin {
    ($tr:ident, $f:ident, $node:ident) => {
        impl $tr for Sym {
            type Output = Sym;
            fn $f(self, o: Sym) -> Sym {
                push(Node::$node(self.0, o.0))
            }
        }
    };
}
sym_bin!(Add, add, Add);
sym_bin!(Sub, sub, Sub);
sym_bin!(Mul, mul, Mul);
impl Div for Sym {
    type Output = Sym;
    fn div(self, _o: Sym) -> Sym {
        bad();
        self
    }
}
impl Rem for Sym {
    type Output = Sym;
    fn rem(self, _o: Sym) -> Sym {
        bad();
        self
    }
}
impl Neg for Sym {
    type Output = Sym;
    fn neg(self) -> Sym {
        push(Node::Neg(self.0))
    }
}
impl Zero for Sym {
    fn zero() -> Self {
        push(Node::Const(0f64.to_bits()))
    }
    fn is_zero(&self) -> bool {
        bad();
        false
    }
}
impl One for Sym {
    fn one() -> Self {
        push(Node::Const(1f64.to_bits()))
    }
}
impl Num for Sym {
    type FromStrRadixErr = ();
    fn from_str_radix(_: &str, _: u32) -> Result<Self, ()> {
        Err(())
    }
}
impl Signed for Sym {
    fn abs(&self) -> Self {
        bad();
        *self
    }
    fn abs_sub(&self, _o: &Self) -> Self {
        bad();
        *self
    }
    fn signum(&self) -> Self {
        bad();
        *self
    }
    fn is_positive(&self) -> bool {
        bad();
        false
    }
    fn is_negative(&self) -> bool {
        bad();
        false
    }
}
impl ToPrimitive for Sym {
    fn to_i64(&self) -> Option<i64> {
        bad();
        None
    }
    fn to_u64(&self) -> Option<u64> {
        bad();
        None
    }
    fn to_f64(&self) -> Option<f64> {
        bad();
        None
    }
}
impl FromPrimitive for Sym {
    fn from_i64(n: i64) -> Option<Self> {
        Some(push(Node::Const((n as f64).to_bits())))
    }
    fn from_u64(n: u64) -> Option<Self> {
        Some(push(Node::Const((n as f64).to_bits())))
    }
    fn from_f64(v: f64) -> Option<Self> {
        Some(push(Node::Const(v.to_bits())))
    }
}

pub const SIZES: [usize; 21] = [1, 2, 3, 4, 5, 6, 7, 8, 9, 11, 12, 13, 16, 17, 19, 23, 24, 27, 29, 31, 32];

pub fn make<T: rustfft::FftNum>(n: usize, d: FftDirection) -> Box<dyn Fft<T>> {
    match n {
        1 => Box::new(Butterfly1::new(d)),
        2 => Box::new(Butterfly2::new(d)),
        3 => Box::new(Butterfly3::new(d)),
        4 => Box::new(Butterfly4::new(d)),
        5 => Box::new(Butterfly5::new(d)),
        6 => Box::new(Butterfly6::new(d)),
        7 => Box::new(Butterfly7::new(d)),
        8 => Box::new(Butterfly8::new(d)),
        9 => Box::new(Butterfly9::new(d)),
        11 => Box::new(Butterfly11::new(d)),
        12 => Box::new(Butterfly12::new(d)),
        13 => Box::new(Butterfly13::new(d)),
        16 => Box::new(Butterfly16::new(d)),
        17 => Box::new(Butterfly17::new(d)),
        19 => Box::new(Butterfly19::new(d)),
        23 => Box::new(Butterfly23::new(d)),
        24 => Box::new(Butterfly24::new(d)),
        27 => Box::new(Butterfly27::new(d)),
        29 => Box::new(Butterfly29::new(d)),
        31 => Box::new(Butterfly31::new(d)),
        32 => Box::new(Butterfly32::new(d)),
        _ => panic!("no scalar butterfly of length {}", n),
    }
}

pub fn grid_for(n: usize) -> usize {
    // sines are cosines a quarter turn back (4 | N); root2 = cos(2 pi / 8) occurs in the lengths that are multiples of 8
    let mut g = n;
    while g % 4 != 0 {
        g *= 2;
    }
    g
}

/// the program of `Butterfly{n}` in direction `d`: (grid N, instructions as (op, a, b), output registers re/im interleaved)
/// op codes: 0 = input a; 1 = constant cos(2 pi a / N); 2 = add; 3 = sub; 4 = mul; 5 = neg
pub fn extract(n: usize, d: FftDirection) -> Result<(usize, Vec<(u8, u32, u32)>, Vec<u32>), String> {
    extract_with(n, 0, 1, 0, &|| make::<Sym>(n, d).into())
}

/// entry: 0 = process_with_scratch, 1 = process_outofplace_with_scratch, 2 = process_immutable_with_scratch.
/// The call processes `chunks` consecutive chunks; the program's inputs 0..2n are the re/im parts of chunk `which`.
/// EVERYTHING ELSE the call can read — the other chunks, the scratch (exactly the advertised length) and the initial
/// contents of the output buffer — is filled with further symbolic inputs ("garbage", numbered from 2n on): if an
/// output of chunk `which` depended on any of them, its linear form would mention an input >= 2n and the checker rejects.
pub fn extract_with(n: usize, entry: usize, chunks: usize, which: usize, build: &dyn Fn() -> std::sync::Arc<dyn Fft<Sym>>) -> Result<(usize, Vec<(u8, u32, u32)>, Vec<u32>), String> {
    ARENA.with(|a| a.borrow_mut().clear());
    BAD.with(|c| c.set(0));
    let fft = build();
    let mut next_garbage = 2 * n as u32;
    let mut garbage = |m: usize| -> Vec<Complex<Sym>> {
        (0..m)
            .map(|_| {
                let c = Complex::new(push(Node::Inp(next_garbage)), push(Node::Inp(next_garbage + 1)));
                next_garbage += 2;
                c
            })
            .collect()
    };
    let mut buf: Vec<Complex<Sym>> = vec![];
    for c in 0..chunks {
        if c == which {
            buf.extend((0..n).map(|k| Complex::new(push(Node::Inp(2 * k as u32)), push(Node::Inp(2 * k as u32 + 1)))));
        } else {
            buf.extend(garbage(n));
        }
    }
    match entry {
        0 => {
            let mut s = garbage(fft.get_inplace_scratch_len());
            fft.process_with_scratch(&mut buf, &mut s);
        }
        1 => {
            let mut s = garbage(fft.get_outofplace_scratch_len());
            let mut out = garbage(n * chunks);
            fft.process_outofplace_with_scratch(&mut buf, &mut out, &mut s);
            buf = out;
        }
        _ => {
            let mut s = garbage(fft.get_immutable_scratch_len());
            let mut out = garbage(n * chunks);
            fft.process_immutable_with_scratch(&buf, &mut out, &mut s);
            buf = out;
        }
    }
    let buf: Vec<Complex<Sym>> = buf[which * n..(which + 1) * n].to_vec();
    if BAD.with(|c| c.get()) != 0 {
        return Err(format!("length {}: {} non-ring operations on the element type (comparison / division / abs …)", n, BAD.with(|c| c.get())));
    }
    let arena = ARENA.with(|a| a.borrow().clone());
    let grid = grid_for(n);
    // keep only what the outputs depend on, in arena order (operands always precede their uses)
    let mut live = vec![false; arena.len()];
    let mut stack: Vec<u32> = buf.iter().flat_map(|c| [c.re.0, c.im.0]).collect();
    while let Some(i) = stack.pop() {
        if live[i as usize] {
            continue;
        }
        live[i as usize] = true;
        match arena[i as usize] {
            Node::Add(a, b) | Node::Sub(a, b) | Node::Mul(a, b) => {
                stack.push(a);
                stack.push(b);
            }
            Node::Neg(a) => stack.push(a),
            _ => {}
        }
    }
    let mut renum = vec![u32::MAX; arena.len()];
    let mut code = vec![];
    for (i, nd) in arena.iter().enumerate() {
        if !live[i] {
            continue;
        }
        let ins = match *nd {
            Node::Inp(j) => (0u8, j, 0u32),
            Node::Const(bits) => {
                let v = f64::from_bits(bits);
                let a = (v.clamp(-1.0, 1.0).acos() * grid as f64 / (2.0 * std::f64::consts::PI)).round() as u32;
                let back = (2.0 * std::f64::consts::PI * a as f64 / grid as f64).cos();
                if (back - v).abs() > 1e-12 {
                    return Err(format!("Butterfly{}: constant {:e} is not a cosine of the grid N = {}", n, v, grid));
                }
                (1u8, a % grid as u32, 0u32)
            }
            Node::Add(a, b) => (2, renum[a as usize], renum[b as usize]),
            Node::Sub(a, b) => (3, renum[a as usize], renum[b as usize]),
            Node::Mul(a, b) => (4, renum[a as usize], renum[b as usize]),
            Node::Neg(a) => (5, renum[a as usize], 0),
        };
        renum[i] = code.len() as u32;
        code.push(ins);
    }
    let outs = buf.iter().flat_map(|c| [renum[c.re.0 as usize], renum[c.im.0 as usize]]).collect();
    Ok((grid, code, outs))
}

pub fn gen() {
    let stdout = std::io::stdout();
    let mut out = std::io::BufWriter::new(stdout.lock());
    writeln!(out, "/-\nGENERATED by `rfv-harness bfx gen` (/verif/harness/src/bfx.rs) on every run — do not edit.\nThe literal operation sequences of /repo's scalar butterflies, recorded by running the real code on a symbolic element type.\n-/\nimport RFV.Model.Prog\n\nnamespace RFV.Gen\n").unwrap();
    let mut names = vec![];
    for &n in SIZES.iter() {
        for (d, tag) in [(FftDirection::Forward, "F"), (FftDirection::Inverse, "I")] {
            match extract(n, d) {
                Ok((grid, code, outs)) => {
                    let body: Vec<String> = code.iter().map(|(o, a, b)| format!("({},{},{})", o, a, b)).collect();
                    let outs_s: Vec<String> = outs.iter().map(|o| o.to_string()).collect();
                    writeln!(out, "def bfly{}{} : RawProg := {{ n := {}, grid := {}, inverse := {},\n  code := [{}],\n  outs := [{}] }}\n", n, tag, n, grid, if tag == "I" { "true" } else { "false" }, body.join(","), outs_s.join(",")).unwrap();
                    names.push(format!("bfly{}{}", n, tag));
                }
                Err(e) => {
                    eprintln!("T7 failed closed: {}", e);
                    std::process::exit(3);
                }
            }
        }
    }
    writeln!(out, "def allButterflies : List RawProg := [{}]\n\nend RFV.Gen", names.join(", ")).unwrap();
}

/// K12: the real butterflies at T = GF(p) on random inputs
pub fn k12(args: &[String]) {
    let count: usize = args[0].parse().unwrap();
    let mut rng = Rng::new(seed_from_env() ^ 0x1212);
    let stdout = std::io::stdout();
    let mut out = std::io::BufWriter::new(stdout.lock());
    for i in 0..count {
        let n = SIZES[i % SIZES.len()];
        let inverse = (i / SIZES.len()) % 2 == 1;
        let grid = grid_for(n);
        let g = if grid % 8 == 0 { grid } else { 2 * grid };
        let c = fp::setup(g as u64).expect("prime for the grid");
        let (p, w) = (c.p, c.omega);
        let d = if inverse { FftDirection::Inverse } else { FftDirection::Forward };
        let fft = make::<Fp>(n, d);
        let vals: Vec<u64> = (0..2 * n).map(|_| rng.below(p)).collect();
        let mut buf: Vec<Complex<Fp>> = (0..n).map(|k| Complex::new(Fp(vals[2 * k]), Fp(vals[2 * k + 1]))).collect();
        let r = catch(|| {
            fft.process_with_scratch(&mut buf, &mut []);
        });
        let ans = match r {
            Ok(_) => buf.iter().map(|c| format!("{} {}", c.re.0, c.im.0)).collect::<Vec<_>>().join(" "),
            Err(e) => format!("PANIC {}", e.chars().take(60).collect::<String>()),
        };
        writeln!(out, "bflyrun {} {} {} {} {} {}\t{}", n, if inverse { "inv" } else { "fwd" }, p, g, w, vals.iter().map(|v| v.to_string()).collect::<Vec<_>>().join(" "), ans).unwrap();
    }
}

/// does the scalar plan of `n` consist of butterflies, mixed radix, Good-Thomas and radix-N/4 steps only?
/// (Rader and Bluestein divide by the inner length: not a ring operation of the symbolic type)
fn prime_free(n: usize) -> bool {
    let t = crate::k2::recipe_line("scalar", n);
    !t.starts_with("ERR") && !t.contains("Raders") && !t.contains("Bluesteins")
}

/// T8: whole transforms planned by `FftPlannerScalar` (what `FftPlanner` falls back to for a third element type),
/// every length up to `hi` whose plan has no Rader / Bluestein node, both directions, all three entry points
pub fn genplanned(hi: usize) {
    let stdout = std::io::stdout();
    let mut out = std::io::BufWriter::new(stdout.lock());
    let mut names = vec![];
    for n in 2..=hi {
        if !prime_free(n) {
            continue;
        }
        for (d, tag) in [(FftDirection::Forward, "F"), (FftDirection::Inverse, "I")] {
            for entry in 0..3usize {
                // one chunk; and, for the shorter lengths in the forward direction, two chunks (each checked on its own)
                let mut shapes = vec![(1usize, 0usize)];
                if n <= 32 && tag == "F" {
                    shapes.push((2, 0));
                    shapes.push((2, 1));
                }
                for (chunks, which) in shapes {
                    let r = extract_with(n, entry, chunks, which, &|| rustfft::FftPlannerScalar::<Sym>::new().plan_fft(n, d));
                    match r {
                        Ok((grid, code, outs)) => {
                            let body: Vec<String> = code.iter().map(|(o, a, b)| format!("({},{},{})", o, a, b)).collect();
                            let outs_s: Vec<String> = outs.iter().map(|o| o.to_string()).collect();
                            let name = format!("plan{}{}{}{}", n, tag, ["inplace", "oop", "immut"][entry], if chunks == 1 { String::new() } else { format!("k2c{}", which) });
                            writeln!(out, "def {} : RawProg := {{ n := {}, grid := {}, inverse := {},\n  code := [{}],\n  outs := [{}] }}\n", name, n, grid, if tag == "I" { "true" } else { "false" }, body.join(","), outs_s.join(",")).unwrap();
                            names.push(name);
                        }
                        Err(e) => {
                            eprintln!("T8 failed closed: {}", e);
                            std::process::exit(3);
                        }
                    }
                }
            }
        }
    }
    writeln!(out, "def allPlanned : List RawProg := [{}]", names.join(", ")).unwrap();
}

/// T9: trees over the PUBLIC algorithm constructors (no Rader / Bluestein node: they divide), depth <= 2 over leaves
/// Dft / butterflies, composite length <= 72, forward, all three entry points, garbage scratch / output
pub fn gentrees() {
    use crate::tree::Tree;
    let b = |t: Tree| Box::new(t);
    let leaves: Vec<Tree> = vec![Tree::Bfly(1), Tree::Bfly(2), Tree::Bfly(3), Tree::Bfly(4), Tree::Bfly(5), Tree::Bfly(7), Tree::Bfly(8), Tree::Dft(1), Tree::Dft(3), Tree::Dft(4), Tree::Dft(6)];
    let mut level1: Vec<Tree> = vec![];
    for (i, l) in leaves.iter().enumerate() {
        for (j, r) in leaves.iter().enumerate() {
            if (i + 2 * j) % 3 != 0 && i != j {
                continue; // a third of the pairs, plus the squares
            }
            level1.push(Tree::MixedRadix(b(l.clone()), b(r.clone())));
            level1.push(Tree::MixedRadixSmall(b(l.clone()), b(r.clone())));
            if gcd(l.len(), r.len()) == 1 {
                level1.push(Tree::GoodThomas(b(l.clone()), b(r.clone())));
                level1.push(Tree::GoodThomasSmall(b(l.clone()), b(r.clone())));
            }
        }
        level1.push(Tree::Radix4(1, b(l.clone())));
        level1.push(Tree::Radix4(0, b(l.clone())));
        level1.push(Tree::Radix3(1, b(l.clone())));
        level1.push(Tree::Radix3(2, b(l.clone())));
        level1.push(Tree::RadixN(vec![2, 3], b(l.clone())));
        level1.push(Tree::RadixN(vec![5], b(l.clone())));
        level1.push(Tree::RadixN(vec![7, 2], b(l.clone())));
    }
    let mut trees: Vec<Tree> = vec![Tree::Dft(0 + 2), Tree::Dft(5), Tree::Dft(9), Tree::Dft(16)];
    trees.extend(level1.iter().cloned());
    // depth 2: every 5th level-1 tree under each outer constructor with a small partner
    for (k, t) in level1.iter().enumerate() {
        if k % 5 != 0 || t.len() > 24 || t.len() == 0 {
            continue;
        }
        for other in [Tree::Bfly(2), Tree::Bfly(3), Tree::Dft(3)] {
            trees.push(Tree::MixedRadix(b(t.clone()), b(other.clone())));
            trees.push(Tree::MixedRadix(b(other.clone()), b(t.clone())));
            if gcd(t.len(), other.len()) == 1 {
                trees.push(Tree::GoodThomas(b(other.clone()), b(t.clone())));
            }
        }
        trees.push(Tree::Radix4(1, b(t.clone())));
        trees.push(Tree::Radix3(1, b(t.clone())));
        trees.push(Tree::RadixN(vec![2], b(t.clone())));
    }
    let stdout = std::io::stdout();
    let mut out = std::io::BufWriter::new(stdout.lock());
    let mut seen = std::collections::BTreeSet::new();
    let mut idx = 0;
    for t in trees {
        let n = t.len();
        if n < 2 || n > 72 || !seen.insert(t.text()) {
            continue;
        }
        // the *Small constructors assert on their inner transforms' scratch: skip what does not construct (checked at f64)
        if catch(|| t.build::<f64>(FftDirection::Forward)).is_err() {
            continue;
        }
        for entry in 0..3usize {
            let r = extract_with(n, entry, 1, 0, &|| t.build::<Sym>(FftDirection::Forward));
            match r {
                Ok((grid, code, outs)) => {
                    let body: Vec<String> = code.iter().map(|(o, a, b)| format!("({},{},{})", o, a, b)).collect();
                    let outs_s: Vec<String> = outs.iter().map(|o| o.to_string()).collect();
                    writeln!(out, "-- {}\ndef tree{}{} : RawProg := {{ n := {}, grid := {}, inverse := false,\n  code := [{}],\n  outs := [{}] }}\n", t.text(), idx, ["inplace", "oop", "immut"][entry], n, grid, body.join(","), outs_s.join(",")).unwrap();
                }
                Err(e) => {
                    eprintln!("T9 failed closed on {}: {}", t.text(), e);
                    std::process::exit(3);
                }
            }
        }
        idx += 1;
    }
}
fn gcd(a: usize, b: usize) -> usize {
    if b == 0 {
        a
    } else {
        gcd(b, a % b)
    }
}

pub fn run(args: &[String]) {
    match args[0].as_str() {
        "gen" => gen(),
        "gentrees" => gentrees(),
        "genplanned" => genplanned(args[1].parse().unwrap()),
        "k12" => k12(&args[1..]),
        _ => panic!("bfx gen | bfx k12 <count>"),
    }
}
