//! The exact prime-field element type: the *unmodified generic* RustFFT code run at `T = Fp`.
//! p = k*N + 1 prime (< 2^31), omega of order N; `from_f64(v)` decodes v = cos(2*pi*a/N) to the field element
//! c_a = (omega^a + omega^-a)/2.  sin enters as a shifted cosine; j = omega^(N/4).
use rustfft::num_traits::{FromPrimitive, Num, One, Signed, ToPrimitive, Zero};
use std::cell::Cell;
use std::ops::*;

use crate::util::is_prime_u64;

#[derive(Copy, Clone, Debug, Default)]
pub struct FpCtx {
    pub p: u64,
    pub n: u64,
    pub omega: u64,
    pub inv2: u64,
}

thread_local! {
    static CTX: Cell<FpCtx> = Cell::new(FpCtx { p: 0, n: 0, omega: 0, inv2: 0 });
    static OFFGRID: Cell<u64> = Cell::new(0);
    static OFFGRID_VAL: Cell<f64> = Cell::new(0.0);
}

pub fn ctx() -> FpCtx {
    CTX.with(|c| c.get())
}
pub fn offgrid_count() -> (u64, f64) {
    (OFFGRID.with(|c| c.get()), OFFGRID_VAL.with(|c| c.get()))
}

fn mulm(a: u64, b: u64, m: u64) -> u64 {
    ((a as u128 * b as u128) % m as u128) as u64
}
pub fn powm(mut b: u64, mut e: u64, m: u64) -> u64 {
    let mut r = 1;
    b %= m;
    while e > 0 {
        if e & 1 == 1 {
            r = mulm(r, b, m);
        }
        b = mulm(b, b, m);
        e >>= 1;
    }
    r
}
fn prime_factors(mut n: u64) -> Vec<u64> {
    let mut v = vec![];
    let mut d = 2;
    while d * d <= n {
        if n % d == 0 {
            v.push(d);
            while n % d == 0 {
                n /= d;
            }
        }
        d += 1;
    }
    if n > 1 {
        v.push(n);
    }
    v
}

/// choose p = k*grid + 1 prime below 2^31 and omega of exact order `grid`; None if no such prime fits
pub fn setup(grid: u64) -> Option<FpCtx> {
    assert!(grid % 8 == 0);
    let mut k = (1u64 << 30) / grid + 1;
    let p = loop {
        let c = k * grid + 1;
        if c >= (1u64 << 31) {
            return None;
        }
        if is_prime_u64(c) {
            break c;
        }
        k += 1;
    };
    let qs = prime_factors(grid);
    let mut g = 2;
    let w = loop {
        let w = powm(g, (p - 1) / grid, p);
        if qs.iter().all(|q| powm(w, grid / q, p) != 1) {
            break w;
        }
        g += 1;
    };
    let c = FpCtx { p, n: grid, omega: w, inv2: powm(2, p - 2, p) };
    CTX.with(|x| x.set(c));
    OFFGRID.with(|x| x.set(0));
    Some(c)
}

#[derive(Copy, Clone, Debug, PartialEq, PartialOrd)]
pub struct Fp(pub u64);

pub fn cosv(a: u64) -> Fp {
    let c = ctx();
    let a = a % c.n;
    let x = powm(c.omega, a, c.p);
    let xi = powm(c.omega, c.n - a, c.p);
    Fp(mulm((x + xi) % c.p, c.inv2, c.p))
}

impl Add for Fp {
    type Output = Fp;
    fn add(self, o: Fp) -> Fp {
        Fp((self.0 + o.0) % ctx().p)
    }
}
impl Sub for Fp {
    type Output = Fp;
    fn sub(self, o: Fp) -> Fp {
        let p = ctx().p;
        Fp((self.0 + p - o.0) % p)
    }
}
impl Mul for Fp {
    type Output = Fp;
    fn mul(self, o: Fp) -> Fp {
        Fp(mulm(self.0, o.0, ctx().p))
    }
}
impl Div for Fp {
    type Output = Fp;
    fn div(self, o: Fp) -> Fp {
        let p = ctx().p;
        Fp(mulm(self.0, powm(o.0, p - 2, p), p))
    }
}
impl Rem for Fp {
    type Output = Fp;
    fn rem(self, _o: Fp) -> Fp {
        panic!("Fp: rem is not a ring operation")
    }
}
impl Neg for Fp {
    type Output = Fp;
    fn neg(self) -> Fp {
        let p = ctx().p;
        Fp((p - self.0) % p)
    }
}
impl Zero for Fp {
    fn zero() -> Fp {
        Fp(0)
    }
    fn is_zero(&self) -> bool {
        self.0 == 0
    }
}
impl One for Fp {
    fn one() -> Fp {
        Fp(1)
    }
}
impl Num for Fp {
    type FromStrRadixErr = ();
    fn from_str_radix(_: &str, _: u32) -> Result<Fp, ()> {
        Err(())
    }
}
impl Signed for Fp {
    fn abs(&self) -> Fp {
        panic!("Fp: abs is not a ring operation")
    }
    fn abs_sub(&self, _: &Fp) -> Fp {
        panic!("Fp: abs_sub is not a ring operation")
    }
    fn signum(&self) -> Fp {
        panic!("Fp: signum is not a ring operation")
    }
    fn is_positive(&self) -> bool {
        panic!("Fp: is_positive is not a ring operation")
    }
    fn is_negative(&self) -> bool {
        panic!("Fp: is_negative is not a ring operation")
    }
}
impl ToPrimitive for Fp {
    fn to_i64(&self) -> Option<i64> {
        None
    }
    fn to_u64(&self) -> Option<u64> {
        Some(self.0)
    }
}
impl FromPrimitive for Fp {
    fn from_i64(n: i64) -> Option<Fp> {
        Some(Fp(n.rem_euclid(ctx().p as i64) as u64))
    }
    fn from_u64(n: u64) -> Option<Fp> {
        Some(Fp(n % ctx().p))
    }
    fn from_f64(v: f64) -> Option<Fp> {
        let n = ctx().n;
        let a = (v.clamp(-1.0, 1.0).acos() * n as f64 / (2.0 * std::f64::consts::PI)).round() as u64;
        let back = (2.0 * std::f64::consts::PI * a as f64 / n as f64).cos();
        if (back - v).abs() > 1e-12 {
            // a constant that is not a grid cosine (a literal 0.5, an angle with the wrong modulus, …)
            OFFGRID.with(|c| c.set(c.get() + 1));
            OFFGRID_VAL.with(|c| c.set(v));
        }
        Some(cosv(a))
    }
}
