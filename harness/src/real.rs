//! f32 / f64 behind one trait for the numeric searches
use rustfft::num_complex::Complex;
use rustfft::FftNum;

pub trait Real: FftNum + PartialEq + PartialOrd {
    const NAME: &'static str;
    const EPS: f64;
    fn of(v: f64) -> Self;
    fn to(self) -> f64;
    fn nan() -> Self;
    fn bits(self) -> u64;
    /// a subnormal value built from raw bits (no floating-point arithmetic involved, so that a flush-to-zero mode of the
    /// constructing thread cannot turn it into zero)
    fn subnormal(k: u32) -> Self;
}
impl Real for f32 {
    const NAME: &'static str = "f32";
    const EPS: f64 = f32::EPSILON as f64;
    fn of(v: f64) -> f32 {
        v as f32
    }
    fn to(self) -> f64 {
        self as f64
    }
    fn nan() -> f32 {
        f32::NAN
    }
    fn bits(self) -> u64 {
        self.to_bits() as u64
    }
    fn subnormal(k: u32) -> f32 {
        f32::from_bits((k & 0x003f_ffff) | 0x1000 | ((k & 1) << 31))
    }
}
impl Real for f64 {
    const NAME: &'static str = "f64";
    const EPS: f64 = f64::EPSILON;
    fn of(v: f64) -> f64 {
        v
    }
    fn to(self) -> f64 {
        self
    }
    fn nan() -> f64 {
        f64::NAN
    }
    fn bits(self) -> u64 {
        self.to_bits()
    }
    fn subnormal(k: u32) -> f64 {
        f64::from_bits((((k as u64) << 24) & 0x0007_ffff_ffff_ffff) | 0x1_0000_0000 | (((k & 1) as u64) << 63))
    }
}

pub fn cx<T: Real>(re: f64, im: f64) -> Complex<T> {
    Complex::new(T::of(re), T::of(im))
}
pub fn zeros<T: Real>(n: usize) -> Vec<Complex<T>> {
    vec![cx(0.0, 0.0); n]
}
pub fn nans<T: Real>(n: usize) -> Vec<Complex<T>> {
    vec![Complex::new(T::nan(), T::nan()); n]
}
pub fn random_vec<T: Real>(rng: &mut crate::util::Rng, n: usize) -> Vec<Complex<T>> {
    (0..n).map(|_| cx(rng.normal(), rng.normal())).collect()
}
pub fn same_bits<T: Real>(a: &[Complex<T>], b: &[Complex<T>]) -> bool {
    a.len() == b.len() && a.iter().zip(b).all(|(x, y)| x.re.bits() == y.re.bits() && x.im.bits() == y.im.bits())
}
pub fn all_finite<T: Real>(a: &[Complex<T>]) -> bool {
    a.iter().all(|x| x.re.to().is_finite() && x.im.to().is_finite())
}
