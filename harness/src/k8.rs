//! K8: exact operation counts (+, -, * of the element type, per chunk) of the real portable code at T = OpCount
use crate::etypes::*;
use rustfft::num_complex::Complex;
use rustfft::{Fft, FftDirection, FftPlanner};
use std::io::Write;
use std::sync::Arc;

pub fn count_ops(fft: &Arc<dyn Fft<OpCount>>, n: usize) -> u64 {
    let mut buf: Vec<Complex<OpCount>> = (0..n).map(|i| Complex::new(OpCount::new(1.0 + i as f64), OpCount::new(0.5 - i as f64))).collect();
    let mut scratch = vec![Complex::new(OpCount::new(0.0), OpCount::new(0.0)); fft.get_inplace_scratch_len()];
    ops_reset();
    fft.process_with_scratch(&mut buf, &mut scratch);
    ops_get()
}

/// operation counts of the fixed-size scalar butterflies (input of translator T2: Gen/BflyOps.lean)
pub fn bflyops(_args: &[String]) {
    for &n in crate::tree::BUTTERFLY_LENS.iter() {
        let f: Arc<dyn Fft<OpCount>> = crate::tree::build_butterfly(n, FftDirection::Forward);
        let a = count_ops(&f, n);
        let g: Arc<dyn Fft<OpCount>> = crate::tree::build_butterfly(n, FftDirection::Inverse);
        let b = count_ops(&g, n);
        // data-independence: a second, different input must give the same count
        println!("BFLY {} {} {}", n, a, b);
    }
}

pub fn run(args: &[String]) {
    use rayon::prelude::*;
    let lo: usize = args[0].parse().unwrap();
    let hi: usize = args[1].parse().unwrap();
    let lines: Vec<String> = (lo..hi)
        .into_par_iter()
        .map(|n| {
            let r = crate::util::catch(|| {
                let fft = FftPlanner::<OpCount>::new().plan_fft(n, if n % 2 == 0 { FftDirection::Forward } else { FftDirection::Inverse });
                let a = count_ops(&fft, n);
                // input-independence: count again on other data and through the out-of-place entry
                let mut x: Vec<Complex<OpCount>> = (0..n).map(|i| Complex::new(OpCount::new(-3.0 * i as f64), OpCount::new(7.0))).collect();
                let mut y = x.clone();
                let mut s = vec![Complex::new(OpCount::new(0.0), OpCount::new(0.0)); fft.get_outofplace_scratch_len()];
                ops_reset();
                fft.process_outofplace_with_scratch(&mut x, &mut y, &mut s);
                let b = ops_get();
                (a, b)
            });
            match r {
                Ok((a, b)) => format!("ops scalar {}\t{}", n, if a == b { a.to_string() } else { format!("{} (out-of-place: {})", a, b) }),
                Err(e) => format!("ops scalar {}\tERR {}", n, e),
            }
        })
        .collect();
    let stdout = std::io::stdout();
    let mut out = std::io::BufWriter::new(stdout.lock());
    for l in lines {
        writeln!(out, "{}", l).unwrap();
    }
}
