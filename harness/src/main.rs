mod k1;
mod k2;
mod k3;
mod planners;
mod report;
mod s04;
mod util;

fn main() {
    let args: Vec<String> = std::env::args().skip(1).collect();
    if args.is_empty() {
        eprintln!("usage: rfv <subcommand> ...");
        std::process::exit(2);
    }
    util::silence_panics();
    let rest = &args[1..];
    match args[0].as_str() {
        "k1" => k1::run(rest),
        "sqrtlim" => k1::sqrtlim(rest),
        "k2" => k2::run(rest),
        "k3" => k3::run(rest),
        "s04" => s04::run(rest),
        other => {
            eprintln!("unknown subcommand {}", other);
            std::process::exit(2);
        }
    }
}
