mod k1;
mod k2;
mod etypes;
mod fp;
mod guard;
mod smem;
mod k3;
mod k4;
mod tree;
mod trees;
mod k5;
mod k6;
mod k7;
mod k8;
mod k9;
mod k10;
mod k11;
mod bfx;
mod inputs;
mod planners;
mod refdft;
mod snum;
mod real;
mod s06;
mod s07;
mod s09;
mod s10;
mod s11;
mod s14;
mod report;
mod s02t;
mod s04;
mod s05;
mod util;

fn main() {
    let args: Vec<String> = std::env::args().skip(1).collect();
    if args.is_empty() {
        eprintln!("usage: rfv <subcommand> ...");
        std::process::exit(2);
    }
    util::silence_panics();
    // VERIF_MASK: hide CPU features through hook H2 for the whole run (bits: 1 avx, 2 fma, 4 avx2, 8 sse4.1)
    if let Ok(m) = std::env::var("VERIF_MASK") {
        rustfft::verif_hooks::set_feature_mask(m.parse().expect("VERIF_MASK"));
    }
    let rest = &args[1..];
    match args[0].as_str() {
        "k1" => k1::run(rest),
        "sqrtlim" => k1::sqrtlim(rest),
        "k2" => k2::run(rest),
        "k3" => k3::run(rest),
        "k4" => k4::run(rest),
        "k4t" => trees::k4t(rest),
        "s12" => trees::s12(rest),
        "k5" => k5::run(rest),
        "k6" => k6::run(rest),
        "k7" => k7::run(rest),
        "k8" => k8::run(rest),
        "bflyops" => k8::bflyops(rest),
        "k9" => k9::run(rest),
        "k10" => k10::run(rest),
        "k11" => k11::run(rest),
        "bfx" => bfx::run(rest),
        "s02t" => s02t::run(rest),
        "s04" => s04::run(rest),
        "s05" => s05::run(rest),
        "s06" => s06::run(rest),
        "s07" => s07::run(rest),
        "s09" => s09::run(rest),
        "s10" => s10::run(rest),
        "s11" => s11::run(rest),
        "s08" => smem::s08(rest),
        "s15" => smem::s15(rest),
        "s03" => smem::s03(rest),
        "s14" => s14::run(rest),
        "snum" => snum::run(rest),
        other => {
            eprintln!("unknown subcommand {}", other);
            std::process::exit(2);
        }
    }
}
