//! search for C07 on the real code: a buffer of k chunks is processed as k independent transforms
//! (every chunk equals the same chunk processed alone, up to rounding; NaN in the other chunks never leaks).
use crate::planners::*;
use crate::real::*;
use crate::report::*;
use crate::util::*;
use rayon::prelude::*;
use rustfft::num_complex::Complex;
use rustfft::{Fft, FftDirection};
use std::sync::Arc;

pub fn run_entry<T: Real>(fft: &Arc<dyn Fft<T>>, entry: usize, data: &[Complex<T>], scratch_fill: Complex<T>) -> Vec<Complex<T>> {
    match entry {
        0 => {
            let mut b = data.to_vec();
            let mut s = vec![scratch_fill; fft.get_inplace_scratch_len()];
            fft.process_with_scratch(&mut b, &mut s);
            b
        }
        1 => {
            let mut a = data.to_vec();
            let mut b = vec![scratch_fill; data.len()];
            let mut s = vec![scratch_fill; fft.get_outofplace_scratch_len()];
            fft.process_outofplace_with_scratch(&mut a, &mut b, &mut s);
            b
        }
        2 => {
            let a = data.to_vec();
            let mut b = vec![scratch_fill; data.len()];
            let mut s = vec![scratch_fill; fft.get_immutable_scratch_len()];
            fft.process_immutable_with_scratch(&a, &mut b, &mut s);
            b
        }
        _ => {
            let mut b = data.to_vec();
            fft.process(&mut b);
            b
        }
    }
}
pub const ENTRY_NAMES: [&str; 4] = ["process_with_scratch", "process_outofplace_with_scratch", "process_immutable_with_scratch", "process"];

pub fn rel_diff<T: Real>(a: &[Complex<T>], b: &[Complex<T>]) -> f64 {
    let mut num = 0.0;
    let mut den = 0.0;
    for (x, y) in a.iter().zip(b) {
        let dr = x.re.to() - y.re.to();
        let di = x.im.to() - y.im.to();
        num += dr * dr + di * di;
        den += y.re.to() * y.re.to() + y.im.to() * y.im.to();
    }
    if !num.is_finite() {
        return f64::INFINITY;
    }
    if den == 0.0 {
        return if num == 0.0 { 0.0 } else { f64::INFINITY };
    }
    (num / den).sqrt()
}

fn one<T: Real>(kind: Kind, n: usize, dir: FftDirection, rng: &mut Rng, rep: &mut Report) {
    let tag = format!("{}/{}/n={}/{}", kind.name(), T::NAME, n, dir_name(dir));
    let fft = match catch(|| AnyPlanner::<T>::new(kind).expect("planner unavailable").plan(n, dir)) {
        Err(e) => {
            rep.fail(format!("plan-panic {}", tag), e);
            return;
        }
        Ok(f) => f,
    };
    let tol = 4.0 * T::EPS * ((2 * n) as f64).log2().max(1.0);
    let nan = Complex::new(T::nan(), T::nan());
    for entry in 0..3 {
        for k in 1..=8usize {
            rep.evaluations += 1;
            let data = random_vec::<T>(rng, n * k);
            let r = catch(|| {
                let multi = run_entry(&fft, entry, &data, nan);
                let mut worst: f64 = 0.0;
                let mut bitwise = true;
                for i in 0..k {
                    let alone = run_entry(&fft, entry, &data[i * n..(i + 1) * n], nan);
                    let d = rel_diff(&multi[i * n..(i + 1) * n], &alone);
                    worst = worst.max(d);
                    bitwise &= same_bits(&multi[i * n..(i + 1) * n], &alone);
                }
                // isolation: every chunk but one is NaN
                let keep = rng.below(k as u64) as usize;
                let mut tainted = vec![nan; n * k];
                tainted[keep * n..(keep + 1) * n].copy_from_slice(&data[keep * n..(keep + 1) * n]);
                let t = run_entry(&fft, entry, &tainted, nan);
                let iso = rel_diff(&t[keep * n..(keep + 1) * n], &multi[keep * n..(keep + 1) * n]);
                (worst, bitwise, iso, keep)
            });
            match r {
                Err(e) => rep.fail(format!("panic {} {} k={}", tag, ENTRY_NAMES[entry], k), e),
                Ok((worst, bitwise, iso, keep)) => {
                    if n >= 2 && k >= 2 {
                        rep.nontrivial += 1;
                    }
                    rep.count(if bitwise { "bitwise-equal-to-single-chunk" } else { "equal-up-to-rounding" });
                    if !(worst <= tol) {
                        rep.fail(format!("chunk-differs {} {} k={}", tag, ENTRY_NAMES[entry], k), format!("relative L2 difference to the single-chunk result {:e} > {:e}", worst, tol));
                    }
                    if !(iso <= tol) {
                        rep.fail(format!("chunk-leak {} {} k={} kept={}", tag, ENTRY_NAMES[entry], k, keep), format!("with every other chunk NaN the kept chunk differs by {:e}", iso));
                    }
                }
            }
        }
    }
}

pub fn run(args: &[String]) {
    let hi: usize = args[0].parse().unwrap();
    let nrand: usize = args[1].parse().unwrap();
    let maxn: usize = args[2].parse().unwrap();
    let seed = seed_from_env() ^ 0x77;
    let mut rng = Rng::new(seed);
    let mut ns: Vec<usize> = (1..hi).collect();
    for _ in 0..nrand {
        ns.push(hi + rng.below((maxn - hi) as u64) as usize);
    }
    let shared = Shared::new();
    ns.par_iter().for_each(|&n| {
        let mut rep = Report::default();
        let mut rng = Rng::new(seed ^ (n as u64 * 7919));
        for kind in avail() {
            let dir = if n % 2 == 0 { FftDirection::Forward } else { FftDirection::Inverse };
            one::<f32>(kind, n, dir, &mut rng, &mut rep);
            one::<f64>(kind, n, dir, &mut rng, &mut rep);
        }
        if n == 12 || n == 97 {
            rep.sample(format!("n={}: k=1..8 chunks x 3 explicit-scratch entry points x 4 planners x f32/f64; each chunk vs the same chunk alone; NaN in all other chunks", n));
        }
        shared.merge(rep);
    });
    shared.into_inner().print("S07-chunks", "one case per (planner, type, n, entry point, k); random normal data; non-trivial = n >= 2 and k >= 2; scratch and output pre-filled with NaN");
}
