//! input vectors of the numeric searches; every value is exactly representable in f32, so f32 and f64 see the same data
use crate::util::Rng;

pub const CLASSES: [&str; 10] = ["normal", "uniform-pos", "impulse", "constant", "constant-full", "tone-on-grid", "tone-off-grid", "alternating", "sparse", "wide-range"];

fn q(v: f64) -> f64 {
    (v as f32) as f64
}

pub fn make(class: &str, n: usize, rng: &mut Rng) -> Vec<(f64, f64)> {
    match class {
        "normal" => (0..n).map(|_| (q(rng.normal()), q(rng.normal()))).collect(),
        "uniform-pos" => (0..n).map(|_| (q(rng.unit() * 10.0), q(rng.unit() * 10.0))).collect(),
        "impulse" => {
            let mut v = vec![(0.0, 0.0); n];
            if n > 0 {
                let j = rng.below(n as u64) as usize;
                v[j] = if rng.below(2) == 0 { (1.0, 0.0) } else { (0.0, 1.0) };
            }
            v
        }
        "constant" => vec![(q(1.25), q(-0.5)); n],
        // a constant with a full significand in BOTH element types (not quantised to f32): partial sums k*v are inexact, so a
        // sequential accumulation shows its O(n*eps) error (sums of 1.25 are exact up to k ~ 2^22 in f32, always in f64)
        "constant-full" => vec![(0.785398163397448_3, -1.141592653589793_1); n],
        "tone-on-grid" => {
            let f = if n > 0 { rng.below(n as u64) } else { 0 };
            (0..n)
                .map(|j| {
                    let (c, s) = crate::refdft::cos_sin_2pi((f * j as u64) % (n as u64).max(1), (n as u64).max(1));
                    (q(c), q(s))
                })
                .collect()
        }
        "tone-off-grid" => {
            let f = rng.unit() * n as f64;
            (0..n)
                .map(|j| {
                    let a = 2.0 * std::f64::consts::PI * f * j as f64 / n as f64;
                    (q(a.cos()), q(a.sin()))
                })
                .collect()
        }
        "alternating" => (0..n).map(|j| if j % 2 == 0 { (1.0, -1.0) } else { (-1.0, 1.0) }).collect(),
        "sparse" => {
            let mut v = vec![(0.0, 0.0); n];
            for _ in 0..(n / 16 + 1).min(n) {
                let j = rng.below(n as u64) as usize;
                v[j] = (q(rng.normal() * 100.0), q(rng.normal() * 100.0));
            }
            v
        }
        "wide-range" => (0..n)
            .map(|_| {
                let e = rng.below(40) as i32 - 20;
                (q(rng.normal() * 2f64.powi(e)), q(rng.normal() * 2f64.powi(e)))
            })
            .collect(),
        _ => panic!("bad input class"),
    }
}
