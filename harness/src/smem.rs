//! memory-discipline searches on the real code (the harness is built with debug assertions and overflow checks, so every
//! `debug_assert!` on an unchecked SIMD/scalar access is live):
//!  s08: scratch is pure workspace (exact advertised length suffices; longer = identical; contents never matter)
//!  s15: the immutable entry never writes its input (input on read-only pages + bitwise compare), incl. ill-shaped calls
//!  s03: no access outside the caller's buffers (every buffer flush against PROT_NONE guard pages, both ends)
use crate::guard::*;
use crate::planners::*;
use crate::real::*;
use crate::report::*;
use crate::s07::ENTRY_NAMES;
use crate::util::*;
use rayon::prelude::*;
use rustfft::num_complex::Complex;
use rustfft::{Fft, FftDirection};
use std::sync::Arc;

fn lens_for(args: &[String], seed: u64) -> Vec<usize> {
    let hi: usize = args[0].parse().unwrap();
    let nstruct: usize = args[1].parse().unwrap();
    let bits: u32 = args[2].parse().unwrap();
    let mut ns: Vec<usize> = (1..hi).collect();
    ns.extend(crate::k1::structured(seed, nstruct, bits).into_iter().filter(|&n| n >= 1));
    // nested real sizes: Bluestein inside RadixN/MixedRadix, Rader chains
    for extra in [2 * 719usize, 4 * 719, 6 * 1201, 47 * 59, 1009 * 2, 96 * 47, 1031, 2053] {
        if (extra as u64) < (1u64 << bits) {
            ns.push(extra);
        }
    }
    // VERIF_SHARD=i/N: this process takes every N-th length (the mmap-heavy searches are run as N single-threaded processes)
    if let Ok(sh) = std::env::var("VERIF_SHARD") {
        let mut it = sh.split('/');
        let i: usize = it.next().unwrap().parse().unwrap();
        let m: usize = it.next().unwrap().parse().unwrap();
        ns = ns.into_iter().enumerate().filter(|(j, _)| j % m == i).map(|(_, n)| n).collect();
    }
    ns
}

fn plan<T: Real>(kind: Kind, n: usize, dir: FftDirection, rep: &mut Report, tag: &str) -> Option<Arc<dyn Fft<T>>> {
    match catch(|| AnyPlanner::<T>::new(kind).expect("planner unavailable").plan(n, dir)) {
        Ok(f) => Some(f),
        Err(e) => {
            rep.fail(format!("plan-panic {}", tag), e);
            None
        }
    }
}

// ------------------------------------------------------------------------------------------------ s08
fn run_fill<T: Real>(fft: &Arc<dyn Fft<T>>, entry: usize, data: &[Complex<T>], slen: usize, fill: Complex<T>) -> Vec<Complex<T>> {
    match entry {
        0 => {
            let mut b = data.to_vec();
            let mut s = vec![fill; slen];
            fft.process_with_scratch(&mut b, &mut s);
            b
        }
        1 => {
            let mut a = data.to_vec();
            let mut b = vec![fill; data.len()];
            let mut s = vec![fill; slen];
            fft.process_outofplace_with_scratch(&mut a, &mut b, &mut s);
            b
        }
        _ => {
            let a = data.to_vec();
            let mut b = vec![fill; data.len()];
            let mut s = vec![fill; slen];
            fft.process_immutable_with_scratch(&a, &mut b, &mut s);
            b
        }
    }
}

fn s08_one<T: Real>(kind: Kind, n: usize, dir: FftDirection, rng: &mut Rng, rep: &mut Report) {
    let tag = format!("{}/{}/n={}/{}", kind.name(), T::NAME, n, dir_name(dir));
    let fft = match plan::<T>(kind, n, dir, rep, &tag) {
        Some(f) => f,
        None => return,
    };
    s08_fft::<T>(fft, n, tag, rng, rep);
}

/// instances built directly through the public constructors, in shapes no planner picks: Bluestein with an inner length
/// well above 2n - 1 (padding stretches), Rader / mixed radix / Good-Thomas over planned inner transforms
fn s08_direct<T: Real>(rng: &mut Rng, rep: &mut Report) {
    use rustfft::algorithm::*;
    for dir in [FftDirection::Forward, FftDirection::Inverse] {
        for (len, m) in [(2usize, 8usize), (3, 8), (5, 16), (7, 32), (9, 32), (10, 32), (11, 32), (13, 64), (21, 64), (37, 128), (100, 512), (61, 256)] {
            let built = catch(|| -> Arc<dyn Fft<T>> { Arc::new(BluesteinsAlgorithm::new(len, Arc::new(Radix4::new(m, dir)) as Arc<dyn Fft<T>>)) });
            match built {
                Ok(f) => s08_fft::<T>(f, len, format!("direct/{}/(Bluesteins {} (Radix4 {}))/{}", T::NAME, len, m, dir_name(dir)), rng, rep),
                Err(e) => rep.fail(format!("ctor-panic direct/{}/(Bluesteins {} (Radix4 {}))", T::NAME, len, m), e),
            }
        }
        for p in [5usize, 17, 97, 257] {
            let built = catch(|| -> Arc<dyn Fft<T>> {
                let inner = rustfft::FftPlannerScalar::<T>::new().plan_fft(p - 1, dir);
                Arc::new(RadersAlgorithm::new(inner))
            });
            if let Ok(f) = built {
                s08_fft::<T>(f, p, format!("direct/{}/(Raders planned {})/{}", T::NAME, p - 1, dir_name(dir)), rng, rep);
            }
        }
        for (a, b) in [(59usize, 4usize), (8, 83), (9, 59)] {
            let built = catch(|| -> Arc<dyn Fft<T>> {
                let mut pl = rustfft::FftPlannerScalar::<T>::new();
                Arc::new(MixedRadix::new(pl.plan_fft(a, dir), pl.plan_fft(b, dir)))
            });
            if let Ok(f) = built {
                s08_fft::<T>(f, a * b, format!("direct/{}/(MixedRadix planned {} planned {})/{}", T::NAME, a, b, dir_name(dir)), rng, rep);
            }
            let built = catch(|| -> Arc<dyn Fft<T>> {
                let mut pl = rustfft::FftPlannerScalar::<T>::new();
                Arc::new(GoodThomasAlgorithm::new(pl.plan_fft(a, dir), pl.plan_fft(b, dir)))
            });
            if let Ok(f) = built {
                s08_fft::<T>(f, a * b, format!("direct/{}/(GoodThomas planned {} planned {})/{}", T::NAME, a, b, dir_name(dir)), rng, rep);
            }
        }
    }
}

fn s08_fft<T: Real>(fft: Arc<dyn Fft<T>>, n: usize, tag: String, rng: &mut Rng, rep: &mut Report) {
    let advs = [fft.get_inplace_scratch_len(), fft.get_outofplace_scratch_len(), fft.get_immutable_scratch_len()];
    let chunks = 1 + rng.below(2) as usize;
    let data = random_vec::<T>(rng, n * chunks);
    let huge = if T::NAME == "f32" { 1.0e30 } else { 1.0e300 };
    let fills: [(&str, Complex<T>); 5] = [
        ("zero", cx(0.0, 0.0)),
        ("NaN", Complex::new(T::nan(), T::nan())),
        ("+Inf", cx(f64::INFINITY, f64::INFINITY)),
        ("-Inf", cx(f64::NEG_INFINITY, f64::NEG_INFINITY)),
        ("huge", cx(huge, -huge)),
    ];
    for entry in 0..3 {
        let adv = advs[entry];
        let variants = [(adv, 0usize), (adv, 1), (adv + 1, 2), (adv + 17, 3), (2 * adv, 4), (adv + 1, 1)];
        let mut base: Option<Vec<Complex<T>>> = None;
        for (slen, fi) in variants {
            rep.evaluations += 1;
            if n >= 2 {
                rep.nontrivial += 1;
            }
            let key = format!("{} {} scratch={}{} fill={}", tag, ENTRY_NAMES[entry], if slen == adv { "adv" } else { "adv+" }, slen - adv, fills[fi].0);
            match catch(|| run_fill(&fft, entry, &data, slen, fills[fi].1)) {
                Err(e) => rep.fail(format!("scratch-panic {}", key), e),
                Ok(out) => {
                    if !all_finite(&out) {
                        rep.fail(format!("scratch-taint {}", key), "non-finite output: a stale scratch/output value was used".into());
                    }
                    match &base {
                        None => base = Some(out),
                        Some(b) => {
                            if !same_bits(b, &out) {
                                rep.fail(format!("scratch-dependence {}", key), "output bits differ from the run with zeroed scratch of exactly the advertised length".into());
                            }
                        }
                    }
                }
            }
        }
    }
}

pub fn s08(args: &[String]) {
    let seed = seed_from_env() ^ 0x0808;
    let ns = lens_for(args, seed);
    let shared = Shared::new();
    ns.par_iter().for_each(|&n| {
        let mut rep = Report::default();
        let mut rng = Rng::new(seed ^ (n as u64) * 17);
        for kind in avail() {
            let dir = if rng.below(2) == 0 { FftDirection::Forward } else { FftDirection::Inverse };
            s08_one::<f32>(kind, n, dir, &mut rng, &mut rep);
            s08_one::<f64>(kind, n, dir, &mut rng, &mut rep);
        }
        if n == 719 || n == 1438 {
            rep.sample(format!("n={}: 4 planners x f32/f64 x 3 entry points x scratch {{adv, adv+1, adv+17, 2adv}} x fill {{0, NaN, +Inf, -Inf, huge}}: outputs bitwise equal and finite", n));
        }
        shared.merge(rep);
    });
    {
        let mut rep = Report::default();
        let mut rng = Rng::new(seed ^ 0xD1);
        s08_direct::<f32>(&mut rng, &mut rep);
        s08_direct::<f64>(&mut rng, &mut rep);
        shared.merge(rep);
    }
    shared.into_inner().print("S08-scratch", "one case per (planner, type, n, entry point, scratch length, fill); 1-2 chunks of normal random data; output buffer pre-filled like the scratch; non-trivial = n >= 2");
}

// ------------------------------------------------------------------------------------------------ s15
fn s15_one<T: Real>(kind: Kind, n: usize, dir: FftDirection, rng: &mut Rng, rep: &mut Report, marker: &Marker) {
    let tag = format!("{}/{}/n={}/{}", kind.name(), T::NAME, n, dir_name(dir));
    let fft = match plan::<T>(kind, n, dir, rep, &tag) {
        Some(f) => f,
        None => return,
    };
    let adv = fft.get_immutable_scratch_len();
    // (chunks, output delta, scratch delta): well-shaped and ill-shaped calls
    let k = 1 + rng.below(8) as usize;
    // the last shape: an EMPTY scratch (ill-shaped whenever the advertised length is positive)
    let shapes: [(usize, isize, isize, isize); 7] = [(k, 0, 0, 0), (1, 0, 0, 0), (k, 1, 0, 0), (k, 0, 1, 0), (k, 0, 0, -1), (2, 0, -(n as isize), 0), (k, 0, 0, -(adv as isize))];
    for (chunks, dlen, olen_d, s_d) in shapes {
        let ilen = (n * chunks) as isize + dlen;
        let olen = ilen + olen_d;
        let slen = adv as isize + s_d;
        if ilen <= 0 || olen < 0 || slen < 0 {
            continue;
        }
        rep.evaluations += 1;
        if n >= 2 {
            rep.nontrivial += 1;
        }
        let key = format!("{} in={} out={} scratch={}", tag, ilen, olen, slen);
        let data = random_vec::<T>(rng, ilen as usize);
        let mut input = GuardBuf::new(&data, if rng.below(2) == 0 { Flush::End } else { Flush::Start });
        input.protect_readonly();
        marker.start(&key);
        let r = catch(|| {
            let mut out = nans::<T>(olen as usize);
            let mut s = nans::<T>(slen as usize);
            fft.process_immutable_with_scratch(input.slice(), &mut out, &mut s);
        });
        marker.end(&key);
        rep.count(if r.is_ok() { "returned" } else { "panicked" });
        if !same_bits(input.slice(), &data) {
            rep.fail(format!("input-modified {}", key), "the input slice differs bitwise after process_immutable_with_scratch".into());
        }
    }
}

pub fn s15(args: &[String]) {
    let seed = seed_from_env() ^ 0x1515;
    let ns = lens_for(args, seed);
    let marker = Marker::new();
    let shared = Shared::new();
    ns.par_iter().for_each(|&n| {
        let mut rep = Report::default();
        let mut rng = Rng::new(seed ^ (n as u64) * 19);
        for kind in avail() {
            let dir = if rng.below(2) == 0 { FftDirection::Forward } else { FftDirection::Inverse };
            s15_one::<f32>(kind, n, dir, &mut rng, &mut rep, &marker);
            s15_one::<f64>(kind, n, dir, &mut rng, &mut rep, &marker);
        }
        if n == 360 {
            rep.sample("n=360: input on PROT_READ pages (a write faults), k in 1..8 chunks, well-shaped and 4 ill-shaped calls, bitwise compare afterwards".into());
        }
        shared.merge(rep);
    });
    shared.into_inner().print("S15-readonly-input", "one case per (planner, type, n, call shape); the input lives on read-only pages, so any write - even one later undone - kills the process (reported through the START/END marker file); non-trivial = n >= 2");
}

// ------------------------------------------------------------------------------------------------ s03
fn s03_one<T: Real>(kind: Kind, n: usize, dir: FftDirection, rng: &mut Rng, rep: &mut Report, marker: &Marker) {
    let tag = format!("{}/{}/n={}/{}", kind.name(), T::NAME, n, dir_name(dir));
    let fft = match plan::<T>(kind, n, dir, rep, &tag) {
        Some(f) => f,
        None => return,
    };
    let advs = [fft.get_inplace_scratch_len(), fft.get_outofplace_scratch_len(), fft.get_immutable_scratch_len()];
    for entry in 0..3usize {
        let adv = advs[entry];
        let k = 1 + rng.below(8) as usize;
        // well-shaped with exactly the advertised scratch, both flush positions; then the ill-shaped variants
        let shapes: [(usize, isize, isize, isize); 7] = [(k, 0, 0, 0), (1, 0, 0, 0), (k, 1, 0, 0), (k, -1, 0, 0), (k, 0, 1, 0), (k, 0, 0, -1), (k, 0, -1, 0)];
        for (si, (chunks, dlen, olen_d, s_d)) in shapes.iter().enumerate() {
            let ilen = (n * chunks) as isize + dlen;
            let olen = ilen + olen_d;
            let slen = adv as isize + s_d;
            if ilen < 0 || olen < 0 || slen < 0 || (entry == 0 && *olen_d != 0) {
                continue;
            }
            for flush in [Flush::End, Flush::Start] {
                if si > 1 && flush == Flush::Start {
                    continue;
                }
                rep.evaluations += 1;
                if n >= 2 {
                    rep.nontrivial += 1;
                }
                let key = format!("{} {} in={} out={} scratch={} {}", tag, ENTRY_NAMES[entry], ilen, olen, slen, if flush == Flush::End { "flush-end" } else { "flush-start" });
                let data = random_vec::<T>(rng, ilen as usize);
                let mut a = GuardBuf::new(&data, flush);
                let mut b = GuardBuf::new(&nans::<T>(olen as usize), flush);
                let mut s = GuardBuf::new(&nans::<T>(slen as usize), flush);
                marker.start(&key);
                let r = catch(|| match entry {
                    0 => fft.process_with_scratch(a.slice_mut(), s.slice_mut()),
                    1 => fft.process_outofplace_with_scratch(a.slice_mut(), b.slice_mut(), s.slice_mut()),
                    _ => fft.process_immutable_with_scratch(a.slice(), b.slice_mut(), s.slice_mut()),
                });
                marker.end(&key);
                let _ = si;
                let well = ilen > 0 && (ilen as usize) % n == 0 && (entry == 0 || olen == ilen) && slen >= adv as isize;
                if ilen == 0 {
                    continue;
                }
                match r {
                    Ok(()) => {
                        rep.count("returned");
                        if !well {
                            rep.fail(format!("illshaped-returned {}", key), "an ill-shaped call returned normally".into());
                        }
                    }
                    Err(e) => {
                        rep.count("panicked");
                        if well {
                            rep.fail(format!("wellshaped-panicked {}", key), e);
                        } else if !is_validation_panic(&e) {
                            rep.fail(format!("panic-inside-kernel {}", key), e);
                        }
                    }
                }
            }
        }
    }
}

pub fn s03(args: &[String]) {
    let seed = seed_from_env() ^ 0x0303;
    let ns = lens_for(args, seed);
    let marker = Marker::new();
    let shared = Shared::new();
    ns.par_iter().for_each(|&n| {
        let mut rep = Report::default();
        let mut rng = Rng::new(seed ^ (n as u64) * 23);
        for kind in avail() {
            let dir = if rng.below(2) == 0 { FftDirection::Forward } else { FftDirection::Inverse };
            s03_one::<f32>(kind, n, dir, &mut rng, &mut rep, &marker);
            s03_one::<f64>(kind, n, dir, &mut rng, &mut rep, &marker);
        }
        if n == 97 {
            rep.sample("n=97: every buffer flush against PROT_NONE guard pages (end and start), exact advertised scratch, k in 1..8 chunks, 3 entry points, well-shaped + 5 ill-shaped calls, debug assertions on".into());
        }
        shared.merge(rep);
    });
    shared.into_inner().print("S03-guard-pages", "one case per (planner, type, n, entry point, call shape, flush side); an out-of-bounds access faults on a guard page and kills the process (reported through the marker file); a panic raised from inside a kernel (debug assertion, bounds check) on any call is a failure; non-trivial = n >= 2");
}
