//! search for C04 on the real code: every planner plans every length without panicking, reports the requested
//! length and direction; length 0 accepts empty buffers; length 1 is the identity (finite inputs).
use crate::planners::*;
use crate::report::*;
use crate::util::*;
use rayon::prelude::*;
use rustfft::num_complex::Complex;
use rustfft::num_traits::{FromPrimitive, ToPrimitive};
use rustfft::{FftDirection, FftNum};

fn check_one<T: FftNum + ToPrimitive + FromPrimitive + PartialEq>(kind: Kind, tyname: &str, n: usize, dir: FftDirection, rep: &mut Report) {
    rep.evaluations += 1;
    let tag = format!("{}/{}/{}/{}", kind.name(), tyname, n, dir_name(dir));
    let r = catch(|| {
        let mut p = AnyPlanner::<T>::new(kind).expect("planner unavailable");
        let fft = p.plan(n, dir);
        (fft.len(), fft.fft_direction(), fft)
    });
    match r {
        Err(e) => rep.fail(format!("plan-panic {}", tag), e),
        Ok((len, d, fft)) => {
            if len != n {
                rep.fail(format!("len {}", tag), format!("reported len {}", len));
            }
            if d != dir {
                rep.fail(format!("dir {}", tag), format!("reported {}", dir_name(d)));
            }
            if n >= 2 {
                rep.nontrivial += 1;
            }
            if n == 0 {
                // a length-0 transform accepts an empty buffer through every entry point
                let r = catch(|| {
                    let mut e1: Vec<Complex<T>> = vec![];
                    let mut e2: Vec<Complex<T>> = vec![];
                    let mut s: Vec<Complex<T>> = vec![Complex::new(T::zero(), T::zero()); 4];
                    fft.process(&mut e1);
                    fft.process_with_scratch(&mut e1, &mut s);
                    fft.process_outofplace_with_scratch(&mut e1, &mut e2, &mut s);
                    fft.process_immutable_with_scratch(&e1, &mut e2, &mut s);
                });
                if let Err(e) = r {
                    rep.fail(format!("len0-empty {}", tag), e);
                }
            }
            if n == 1 {
                for (re, im) in [(1.5f64, -2.25f64), (0.0, 0.0), (-7.0, 1e10), (3.0e-5, 4.0)] {
                    let x = Complex::new(T::from_f64(re).unwrap(), T::from_f64(im).unwrap());
                    let r = catch(|| {
                        let sl = fft.get_inplace_scratch_len().max(fft.get_outofplace_scratch_len()).max(fft.get_immutable_scratch_len());
                        let mut s = vec![Complex::new(T::zero(), T::zero()); sl];
                        let mut a = vec![x];
                        fft.process(&mut a);
                        let mut b = vec![x];
                        fft.process_with_scratch(&mut b, &mut s);
                        let mut c_in = vec![x];
                        let mut c = vec![Complex::new(T::zero(), T::zero())];
                        fft.process_outofplace_with_scratch(&mut c_in, &mut c, &mut s);
                        let d_in = vec![x];
                        let mut d = vec![Complex::new(T::zero(), T::zero())];
                        fft.process_immutable_with_scratch(&d_in, &mut d, &mut s);
                        [a[0], b[0], c[0], d[0]]
                    });
                    match r {
                        Err(e) => rep.fail(format!("len1-panic {}", tag), e),
                        Ok(outs) => {
                            for (i, o) in outs.iter().enumerate() {
                                if *o != x {
                                    rep.fail(format!("len1-identity {} entry{}", tag, i), format!("in=({},{}) out=({:?},{:?})", re, im, o.re.to_f64(), o.im.to_f64()));
                                }
                            }
                        }
                    }
                }
            }
        }
    }
}

fn reuse_sweep<T: FftNum>(kind: Kind, tyname: &str, order: &[usize], rep: &mut Report) {
    let mut p = match AnyPlanner::<T>::new(kind) {
        Some(p) => p,
        None => return,
    };
    for (i, &n) in order.iter().enumerate() {
        let dir = if i % 3 == 0 { FftDirection::Inverse } else { FftDirection::Forward };
        rep.evaluations += 1;
        if n >= 2 {
            rep.nontrivial += 1;
        }
        let tag = format!("reused-planner {}/{}/{}/{} (request #{})", kind.name(), tyname, n, dir_name(dir), i);
        match catch(std::panic::AssertUnwindSafe(|| {
            let f = p.plan(n, dir);
            (f.len(), f.fft_direction())
        })) {
            Err(e) => {
                rep.fail(format!("plan-panic {}", tag), e);
                // the planner may be poisoned by the unwinding: start over with a fresh one
                p = AnyPlanner::<T>::new(kind).unwrap();
            }
            Ok((len, d)) => {
                if len != n {
                    rep.fail(format!("len {}", tag), format!("reported len {}", len));
                }
                if d != dir {
                    rep.fail(format!("dir {}", tag), format!("reported {}", dir_name(d)));
                }
            }
        }
    }
}

pub fn run(args: &[String]) {
    let lo: usize = args[0].parse().unwrap();
    let hi: usize = args[1].parse().unwrap();
    let nstruct: usize = args.get(2).map(|s| s.parse().unwrap()).unwrap_or(0);
    let max_struct_bits: u32 = args.get(3).map(|s| s.parse().unwrap()).unwrap_or(17);
    let mut ns: Vec<usize> = (lo..hi).collect();
    ns.extend(crate::k1::structured(seed_from_env() ^ 0x44, nstruct, max_struct_bits));
    let shared = Shared::new();
    ns.par_iter().for_each(|&n| {
        let mut rep = Report::default();
        for kind in avail() {
            for dir in [FftDirection::Forward, FftDirection::Inverse] {
                check_one::<f32>(kind, "f32", n, dir, &mut rep);
                check_one::<f64>(kind, "f64", n, dir, &mut rep);
            }
        }
        if n % 997 == 3 {
            rep.sample(format!("n={} all planners x f32/f64 x fwd/inv: construct, len(), fft_direction()", n));
        }
        shared.merge(rep);
    });
    let mut rep = shared.into_inner();
    // the same lengths again on ONE planner per (kind, type), in a pseudo-random order: history must not matter
    {
        let mut rng = Rng::new(seed_from_env() ^ 0x4444);
        let mut order: Vec<usize> = ns.iter().copied().filter(|&n| n < 8192).collect();
        for i in (1..order.len()).rev() {
            let j = rng.below(i as u64 + 1) as usize;
            order.swap(i, j);
        }
        order.truncate(3000);
        for kind in avail() {
            reuse_sweep::<f32>(kind, "f32", &order, &mut rep);
            reuse_sweep::<f64>(kind, "f64", &order, &mut rep);
        }
    }
    rep.sample(format!("n in {}..{} plus {} structured lengths below 2^{}", lo, hi, nstruct, max_struct_bits));
    rep.print("S04-construct", "every (planner, element type, n, direction) built with catch_unwind; non-trivial = n >= 2; each tuple is distinct by construction");
}
