//! K11: the literal index loops of the real code (hook H3) on the identity input `0..len`, so that the permutation itself
//! is visible: bitreversed_transpose, factor_transpose, Good-Thomas' reindex_input / reindex_output and the Small
//! variant's precomputed maps — vs the loop transcriptions of Model/Loops.lean (which Props/C01Loops proves equal to the
//! closed forms used by `Recipe.sem`).
use crate::k9::Mock;
use crate::util::*;
use rustfft::algorithm::{GoodThomasAlgorithm, GoodThomasAlgorithmSmall};
use rustfft::num_complex::Complex;
use rustfft::verif_hooks as vh;
use rustfft::Fft;
use std::io::Write;
use std::sync::{Arc, Mutex};

fn list(v: &[usize]) -> String {
    v.iter().map(|x| x.to_string()).collect::<Vec<_>>().join(" ")
}
const FILL: usize = 999_999;

fn mock(len: usize) -> Arc<dyn Fft<f64>> {
    Arc::new(Mock { id: 0, len, inplace: 0, oop: 0, immut: 0, log: Arc::new(Mutex::new(vec![])) })
}

fn bitrev(d: usize, height: usize, len: usize) -> String {
    let input: Vec<usize> = (0..len).collect();
    let mut output = vec![FILL; len];
    let r = catch(|| match d {
        2 => vh::bitreversed_transpose::<usize, 2>(height, &input, &mut output),
        3 => vh::bitreversed_transpose::<usize, 3>(height, &input, &mut output),
        4 => vh::bitreversed_transpose::<usize, 4>(height, &input, &mut output),
        5 => vh::bitreversed_transpose::<usize, 5>(height, &input, &mut output),
        _ => panic!("unsupported D"),
    });
    match r {
        Ok(()) => list(&output),
        Err(_) => "PANIC".into(),
    }
}

fn rle(fs: &[usize]) -> Vec<(usize, u8)> {
    // the run-length encoding `RadixN::new` performs over the reversed factor list
    let mut out: Vec<(usize, u8)> = vec![];
    for &f in fs.iter().rev() {
        if let Some(last) = out.last_mut() {
            if last.0 == f {
                last.1 += 1;
                continue;
            }
        }
        out.push((f, 1));
    }
    out
}

fn factr(height: usize, fs: &[usize]) -> String {
    let width: usize = fs.iter().product();
    let len = height * width;
    let input: Vec<usize> = (0..len).collect();
    let mut output = vec![FILL; len];
    let tf = rle(fs);
    let d = tf.first().map(|x| x.0).unwrap_or(2);
    match catch(|| vh::factor_transpose_usize(d, height, &input, &mut output, &tf)) {
        Ok(()) => list(&output),
        Err(_) => "PANIC".into(),
    }
}

fn gt(which: &str, w: usize, h: usize) -> String {
    let r = catch(|| {
        let g = GoodThomasAlgorithm::new(mock(w), mock(h));
        let (gw, gh) = g.verif_dims();
        let len = w * h;
        let src: Vec<Complex<f64>> = (0..len).map(|i| Complex::new(i as f64, 0.0)).collect();
        let mut dst = vec![Complex::new(FILL as f64, 0.0); len];
        if which == "gtin" {
            g.verif_reindex_input(&src, &mut dst);
        } else {
            g.verif_reindex_output(&src, &mut dst);
        }
        format!("{} {} | {}", gw, gh, list(&dst.iter().map(|c| c.re as usize).collect::<Vec<_>>()))
    });
    r.unwrap_or_else(|_| "PANIC".into())
}

fn gtsmall(w: usize, h: usize) -> String {
    catch(|| list(&GoodThomasAlgorithmSmall::new(mock(w), mock(h)).verif_input_output_map())).unwrap_or_else(|_| "PANIC".into())
}

fn gcd(a: usize, b: usize) -> usize {
    if b == 0 {
        a
    } else {
        gcd(b, a % b)
    }
}

pub fn run(args: &[String]) {
    let count: usize = args[0].parse().unwrap();
    let mut rng = Rng::new(seed_from_env() ^ 0x1111_0000);
    let stdout = std::io::stdout();
    let mut out = std::io::BufWriter::new(stdout.lock());
    // bitreversed_transpose: every (D, k, height) small, incl. shapes the asserts must reject
    for d in [2usize, 3, 4, 5] {
        for k in 0..=(if d == 2 { 6 } else { 4 }) {
            for height in [1usize, 2, 3, 5, 8] {
                let len = height * d.pow(k);
                if len <= 2200 {
                    writeln!(out, "loops;bitrev;{};{};{}\t{}", d, height, len, bitrev(d, height, len)).unwrap();
                }
            }
        }
        // a width that is not a power of D
        writeln!(out, "loops;bitrev;{};{};{}\t{}", d, 2, 2 * (d + 1), bitrev(d, 2, 2 * (d + 1))).unwrap();
    }
    // factor_transpose: random factor lists over {2..7}
    for _ in 0..count {
        let nf = 1 + rng.below(4) as usize;
        let fs: Vec<usize> = (0..nf).map(|_| 2 + rng.below(6) as usize).collect();
        let height = 1 + rng.below(6) as usize;
        if height * fs.iter().product::<usize>() <= 3000 {
            let ftxt = fs.iter().map(|f| f.to_string()).collect::<Vec<_>>().join(" ");
            writeln!(out, "loops;factr;{};{}\t{}", height, ftxt, factr(height, &fs)).unwrap();
        }
    }
    // Good-Thomas: every coprime pair up to 14 x 14 (both orders: the constructor swaps), a few larger
    for w in 1..=14usize {
        for h in 1..=14usize {
            if gcd(w, h) == 1 {
                writeln!(out, "loops;gtin;{};{}\t{}", w, h, gt("gtin", w, h)).unwrap();
                writeln!(out, "loops;gtout;{};{}\t{}", w, h, gt("gtout", w, h)).unwrap();
                writeln!(out, "loops;gtsmall;{};{}\t{}", w, h, gtsmall(w, h)).unwrap();
            }
        }
    }
    for (w, h) in [(16usize, 27usize), (31, 32), (25, 36), (7, 64), (3, 100)] {
        writeln!(out, "loops;gtin;{};{}\t{}", w, h, gt("gtin", w, h)).unwrap();
        writeln!(out, "loops;gtout;{};{}\t{}", w, h, gt("gtout", w, h)).unwrap();
        writeln!(out, "loops;gtsmall;{};{}\t{}", w, h, gtsmall(w, h)).unwrap();
    }
}
