//! K6: request histories on one planner: per step the recipe/plan (hook H1, *under the current cache*), the spec of
//! the returned instance and the instance-cache key sets, for the Lean cache state machine to reproduce.
use crate::k3::spec_text;
use crate::planners::*;
use crate::util::*;
#[allow(unused_imports)]
use rustfft::{FftDirection, FftPlannerAvx, FftPlannerScalar, FftPlannerSse};
use std::collections::BTreeSet;
use std::io::Write;

fn divisors(n: usize) -> Vec<usize> {
    let mut v = vec![];
    let mut d = 1;
    while d * d <= n {
        if n % d == 0 {
            v.push(d);
            v.push(n / d);
        }
        d += 1;
    }
    v
}

/// candidate cache keys for an AVX history: divisors of every requested length and of the inner lengths its plans name
fn avx_candidates<T: rustfft::FftNum>(lens: &[usize]) -> BTreeSet<usize> {
    let mut out = BTreeSet::new();
    let mut todo: Vec<usize> = lens.to_vec();
    let mut seen = BTreeSet::new();
    while let Some(n) = todo.pop() {
        if !seen.insert(n) {
            continue;
        }
        for d in divisors(n.max(1)) {
            out.insert(d);
        }
        out.insert(n);
        #[cfg(feature = "avx")]
        if let Ok(text) = catch(|| FftPlannerAvx::<T>::new().unwrap().verif_plan(n, FftDirection::Forward)) {
            // (AvxPlan len (Raders p) [..]) / (AvxPlan len (Bluesteins p m) [..])
            if let Some(i) = text.find("(Raders ") {
                let p: usize = text[i + 8..].split(')').next().unwrap().parse().unwrap();
                todo.push(p);
                todo.push(p - 1);
            }
            if let Some(i) = text.find("(Bluesteins ") {
                let mut it = text[i + 12..].split(')').next().unwrap().split(' ');
                let p: usize = it.next().unwrap().parse().unwrap();
                let m: usize = it.next().unwrap().parse().unwrap();
                todo.push(p);
                todo.push(m);
            }
            if let Some(i) = text.find("(Bfly ") {
                let b: usize = text[i + 6..].split(')').next().unwrap().parse().unwrap();
                out.insert(b);
            }
        }
    }
    out
}

/// spec of the returned instance; a wrong reported direction is made visible in the text (the model has none: it is the requested one)
fn spec_dir<T: rustfft::FftNum>(fft: &std::sync::Arc<dyn rustfft::Fft<T>>, requested: FftDirection) -> String {
    if fft.fft_direction() == requested {
        spec_text(fft)
    } else {
        format!("{} WRONG-DIRECTION", spec_text(fft))
    }
}

fn keys_text(k: &[usize]) -> String {
    format!("[{}]", k.iter().map(|x| x.to_string()).collect::<Vec<_>>().join(" "))
}

fn run_history<T: rustfft::FftNum>(planner: &str, steps: &[(usize, FftDirection)], cands: &BTreeSet<usize>) -> String {
    let mut out: Vec<String> = vec![];
    match planner {
        "scalar" => {
            let mut p = FftPlannerScalar::<T>::new();
            for &(n, d) in steps {
                let r = catch(|| {
                    let text = p.verif_recipe(n);
                    let fft = p.plan_fft(n, d);
                    (text, spec_dir(&fft, d))
                });
                match r {
                    Ok((text, spec)) => {
                        let (f, i, _) = p.verif_cache_keys();
                        out.push(format!("{} | {} | {} | {}", text, spec, keys_text(&f), keys_text(&i)));
                    }
                    Err(e) => {
                        out.push(format!("ERR {}", e));
                        break;
                    }
                }
            }
        }
        #[cfg(feature = "sse")]
        "sse" => {
            let mut p = FftPlannerSse::<T>::new().expect("sse unavailable");
            for &(n, d) in steps {
                let r = catch(|| {
                    let text = p.verif_recipe(n);
                    let fft = p.plan_fft(n, d);
                    (text, spec_dir(&fft, d))
                });
                match r {
                    Ok((text, spec)) => {
                        let (f, i, _) = p.verif_cache_keys();
                        out.push(format!("{} | {} | {} | {}", text, spec, keys_text(&f), keys_text(&i)));
                    }
                    Err(e) => {
                        out.push(format!("ERR {}", e));
                        break;
                    }
                }
            }
        }
        #[cfg(feature = "avx")]
        "avx" => {
            let mut p = FftPlannerAvx::<T>::new().expect("avx unavailable");
            for &(n, d) in steps {
                let r = catch(|| {
                    let text = p.verif_plan(n, d);
                    let fft = p.plan_fft(n, d);
                    (text, spec_dir(&fft, d))
                });
                match r {
                    Ok((text, spec)) => {
                        let probe = |dir: FftDirection, p: &FftPlannerAvx<T>| -> Vec<usize> {
                            cands.iter().copied().filter(|&l| p.verif_plan(l, dir).contains(&format!("(AvxPlan {} (Cache {}) [])", l, l))).collect()
                        };
                        let f = probe(FftDirection::Forward, &p);
                        let i = probe(FftDirection::Inverse, &p);
                        out.push(format!("{} | {} | {} | {}", text, spec, keys_text(&f), keys_text(&i)));
                    }
                    Err(e) => {
                        out.push(format!("ERR {}", e));
                        break;
                    }
                }
            }
        }
        _ => out.push("ERR planner kind not compiled in".to_string()),
    }
    out.join(" # ")
}

/// pools of related lengths: each lies on the radix chain / divisor lattice of another
fn pools() -> Vec<Vec<usize>> {
    vec![
        vec![8, 16, 64, 128, 512, 1024, 4096],
        vec![12, 36, 72, 144, 432, 864, 1728],
        vec![5, 25, 75, 150, 600, 1200, 6000],
        vec![7, 11, 77, 154, 847, 1694],
        vec![17, 34, 136, 37, 74, 1009, 2018, 1008],
        vec![47, 94, 719, 1438, 2157, 96, 2048, 1536],
        vec![1, 2, 3, 0, 9, 10, 20, 60, 120],
        vec![31, 62, 992, 961, 29791, 93, 27],
        vec![1201, 1200, 2402, 3603, 600, 300],
        // products of two larger primes (no factor <= 7, not a butterfly pair) and their Rader/Bluestein parts
        vec![11, 37, 41, 407, 451, 1517, 74, 111, 82, 59, 649],
        vec![83, 166, 107, 214, 167, 1031, 59, 118, 149],
        // powers of two with their 3*2^k neighbours (Radix4 over a 12 / 24 base) and Bluestein primes whose inner length is 3*2^k
        vec![512, 1536, 1024, 3072, 2048, 6144, 384, 719, 1439],
    ]
}

pub fn run(args: &[String]) {
    let nrandom: usize = args[0].parse().unwrap();
    let maxlen: usize = args[1].parse().unwrap();
    let mut rng = Rng::new(seed_from_env() ^ 0x6666);
    let stdout = std::io::stdout();
    let mut out = std::io::BufWriter::new(stdout.lock());
    let mut histories: Vec<Vec<(usize, FftDirection)>> = vec![];
    // bounded-exhaustive: all sequences of length <= 2 over each pool x both directions, plus sampled length-3
    for pool in pools() {
        let items: Vec<(usize, FftDirection)> = pool.iter().flat_map(|&n| [(n, FftDirection::Forward), (n, FftDirection::Inverse)]).collect();
        for a in &items {
            for b in &items {
                histories.push(vec![*a, *b]);
            }
        }
        for _ in 0..nrandom / 4 + 1 {
            let h: Vec<_> = (0..3).map(|_| items[rng.below(items.len() as u64) as usize]).collect();
            histories.push(h);
        }
    }
    // random sequences up to 12 over divisor lattices of highly composite lengths times small and large primes
    let hc = [720usize, 840, 1260, 2520, 5040, 4096, 6561, 3125];
    let primes = [1usize, 5, 7, 11, 13, 47, 59, 1009];
    for _ in 0..nrandom {
        let base = hc[rng.below(hc.len() as u64) as usize];
        let ds = divisors(base);
        let len = 2 + rng.below(11) as usize;
        let h: Vec<_> = (0..len)
            .map(|_| {
                let d = ds[rng.below(ds.len() as u64) as usize];
                let p = primes[rng.below(primes.len() as u64) as usize];
                let n = if d * p <= maxlen { d * p } else { d };
                (n, if rng.below(2) == 0 { FftDirection::Forward } else { FftDirection::Inverse })
            })
            .collect();
        histories.push(h);
    }
    for (hi, h) in histories.iter().enumerate() {
        let steps: Vec<String> = h.iter().map(|(n, d)| format!("{}:{}", n, dir_name(*d))).collect();
        let lens: Vec<usize> = h.iter().map(|x| x.0).collect();
        for (planner, ty) in [("scalar", "f64"), ("sse", "f32"), ("avx", "f32"), ("avx", "f64")] {
            // rotate planners over histories to keep the run short, but cover every planner on every pool
            if hi % 4 != ["scalar", "sse", "avx", "avx"].iter().zip(["f64", "f32", "f32", "f64"]).position(|(p, t)| *p == planner && t == ty).unwrap() && hi % 3 != 0 {
                continue;
            }
            let cands = if planner == "avx" {
                if ty == "f32" {
                    avx_candidates::<f32>(&lens)
                } else {
                    avx_candidates::<f64>(&lens)
                }
            } else {
                BTreeSet::new()
            };
            let ans = if ty == "f32" { run_history::<f32>(planner, h, &cands) } else { run_history::<f64>(planner, h, &cands) };
            let c: Vec<String> = cands.iter().map(|x| x.to_string()).collect();
            writeln!(out, "hist;{};{};{};{}\t{}", planner, ty, steps.join(","), c.join(" "), ans).unwrap();
        }
    }
}
