//! K2: recipes / plans of the real planners (hook H1) for the Lean model to reproduce.
use crate::util::*;
#[allow(unused_imports)]
use rustfft::{FftDirection, FftPlannerAvx, FftPlannerScalar, FftPlannerSse};
use std::io::Write;

pub fn recipe_line(kind: &str, n: usize) -> String {
    let r = match kind {
        "scalar" => catch(|| FftPlannerScalar::<f64>::new().verif_recipe(n)),
        #[cfg(feature = "sse")]
        "sse" => catch(|| FftPlannerSse::<f64>::new().expect("sse unavailable").verif_recipe(n)),
        #[cfg(feature = "avx")]
        "avx32" | "avx32n" => catch(|| FftPlannerAvx::<f32>::new().expect("avx unavailable").verif_plan(n, FftDirection::Forward)),
        #[cfg(feature = "avx")]
        "avx64" | "avx64n" => catch(|| FftPlannerAvx::<f64>::new().expect("avx unavailable").verif_plan(n, FftDirection::Forward)),
        _ => Err("planner kind not compiled in".to_string()),
    };
    match r {
        Ok(t) => t,
        Err(e) => format!("ERR {}", e),
    }
}

pub fn run(args: &[String]) {
    let kind = args[0].as_str();
    let lo: usize = args[1].parse().unwrap();
    let hi: usize = args[2].parse().unwrap();
    let nstruct: usize = args.get(3).map(|s| s.parse().unwrap()).unwrap_or(0);
    let stdout = std::io::stdout();
    let mut out = std::io::BufWriter::new(stdout.lock());
    for n in lo..hi {
        writeln!(out, "recipe {} {}\t{}", kind, n, recipe_line(kind, n)).unwrap();
    }
    for n in crate::k1::structured(seed_from_env() ^ 0x22, nstruct, 22) {
        writeln!(out, "recipe {} {}\t{}", kind, n, recipe_line(kind, n)).unwrap();
    }
    // the heuristic tables of the planners branch on the exponents of 2 and 3 (and on the presence of 5, 7, 11): every
    // 2^a * 3^b below 2^31 beyond the swept range, and those times 5 / 7 / 11 / 35 — planning only, nothing is built.
    // (AVX plans of lengths needing a Bluestein step would construct nothing either: verif_plan only plans.)
    if nstruct > 0 {
        let mut grid: Vec<usize> = vec![];
        let mut p2 = 1usize;
        for _a in 0..31 {
            let mut v = p2;
            for _b in 0..20 {
                if v >= (1usize << 31) {
                    break;
                }
                for m in [1usize, 5, 7, 11, 35] {
                    let n = v.saturating_mul(m);
                    if n >= hi && n < (1usize << 31) {
                        grid.push(n);
                    }
                }
                v = v.saturating_mul(3);
            }
            p2 *= 2;
        }
        grid.sort();
        grid.dedup();
        for n in grid {
            writeln!(out, "recipe {} {}\t{}", kind, n, recipe_line(kind, n)).unwrap();
        }
    }
}
