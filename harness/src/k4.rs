//! K4: exact outputs of the real generic code at `T = Fp`, through all four entry points, garbage in scratch and
//! output, several chunks — as `fp;p;N;omega;dir;tree;inputs <TAB> outputs` lines for the Lean model (`Recipe.sem` over GF(p)[i]).
use crate::fp::*;
use crate::tree::Tree;
use crate::util::*;
use rayon::prelude::*;
use rustfft::num_complex::Complex;
use rustfft::{Fft, FftDirection, FftPlanner};
use std::io::Write;
use std::sync::Arc;

pub const MAX_GRID: u64 = 20_000_000;

fn garbage(rng: &mut Rng, len: usize, p: u64) -> Vec<Complex<Fp>> {
    (0..len).map(|_| Complex::new(Fp(rng.below(p)), Fp(rng.below(p)))).collect()
}

/// run `fft` on `input` (k chunks) through the four entry points with exact-size and over-size garbage scratch;
/// Ok(common output) or Err(description of the first discrepancy / panic)
pub fn run_all_entries(fft: &Arc<dyn Fft<Fp>>, input: &[Complex<Fp>], rng: &mut Rng) -> Result<Vec<Complex<Fp>>, String> {
    let p = ctx().p;
    let mut a = input.to_vec();
    catch(|| fft.process(&mut a)).map_err(|e| format!("PANIC process: {}", e))?;
    for extra in [0usize, 17] {
        let mut b = input.to_vec();
        let mut s = garbage(rng, fft.get_inplace_scratch_len() + extra, p);
        catch(|| fft.process_with_scratch(&mut b, &mut s)).map_err(|e| format!("PANIC process_with_scratch: {}", e))?;
        if b != a {
            return Err(format!("ENTRY-MISMATCH process_with_scratch(+{}) vs process", extra));
        }
        let mut cin = input.to_vec();
        let mut c = garbage(rng, input.len(), p);
        let mut s = garbage(rng, fft.get_outofplace_scratch_len() + extra, p);
        catch(|| fft.process_outofplace_with_scratch(&mut cin, &mut c, &mut s)).map_err(|e| format!("PANIC process_outofplace_with_scratch: {}", e))?;
        if c != a {
            return Err(format!("ENTRY-MISMATCH process_outofplace_with_scratch(+{}) vs process", extra));
        }
        let din = input.to_vec();
        let mut d = garbage(rng, input.len(), p);
        let mut s = garbage(rng, fft.get_immutable_scratch_len() + extra, p);
        catch(|| fft.process_immutable_with_scratch(&din, &mut d, &mut s)).map_err(|e| format!("PANIC process_immutable_with_scratch: {}", e))?;
        if d != a {
            return Err(format!("ENTRY-MISMATCH process_immutable_with_scratch(+{}) vs process", extra));
        }
        if din != input {
            return Err("IMMUT-INPUT-MODIFIED".to_string());
        }
    }
    Ok(a)
}

pub fn make_input(n: usize, rng: &mut Rng, p: u64, basis_max: usize) -> Vec<Complex<Fp>> {
    if n == 0 {
        return vec![];
    }
    if n <= basis_max {
        // the whole impulse basis, real and imaginary, as 2n chunks of one buffer
        let mut v = vec![Complex::new(Fp(0), Fp(0)); 2 * n * n];
        for j in 0..n {
            v[j * n + j] = Complex::new(Fp(1), Fp(0));
            v[(n + j) * n + j] = Complex::new(Fp(0), Fp(1));
        }
        v
    } else {
        let chunks = 1 + rng.below(3) as usize;
        garbage(rng, n * chunks, p)
    }
}

fn vals(v: &[Complex<Fp>]) -> String {
    let mut s = String::with_capacity(v.len() * 12);
    for (i, c) in v.iter().enumerate() {
        if i > 0 {
            s.push(' ');
        }
        s.push_str(&c.re.0.to_string());
        s.push(' ');
        s.push_str(&c.im.0.to_string());
    }
    s
}

/// one correspondence line for a tree; `make` builds the instance (planner or constructors). None if the grid does not fit.
pub fn case_line(tree: &Tree, dir: FftDirection, seed: u64, basis_max: usize, make: impl FnOnce() -> Arc<dyn Fft<Fp>>) -> Option<String> {
    let grid = tree.grid();
    if grid > MAX_GRID {
        return None;
    }
    let c = setup(grid)?;
    let mut rng = Rng::new(seed);
    let built = catch(make);
    let dname = crate::planners::dir_name(dir);
    let n = tree.len();
    let input = make_input(n, &mut rng, c.p, basis_max);
    let req = format!("fp;{};{};{};{};{};{}", c.p, c.n, c.omega, dname, tree.text(), vals(&input));
    let ans = match built {
        Err(_) => "CTOR-PANIC".to_string(),
        Ok(fft) => {
            if fft.len() != n {
                format!("LEN-MISMATCH {} vs {}", fft.len(), n)
            } else {
                let (off, val) = offgrid_count();
                if off > 0 {
                    format!("OFF-GRID {} constants, e.g. {}", off, val)
                } else {
                    match run_all_entries(&fft, &input, &mut rng) {
                        Ok(o) => {
                            let (off, val) = offgrid_count();
                            if off > 0 {
                                format!("OFF-GRID {} constants, e.g. {}", off, val)
                            } else {
                                vals(&o)
                            }
                        }
                        Err(e) => e,
                    }
                }
            }
        }
    };
    Some(format!("{}\t{}", req, ans))
}

/// planned lengths through `FftPlanner::<Fp>` (which must fall back to the portable planner: C14)
pub fn run(args: &[String]) {
    let lo: usize = args[0].parse().unwrap();
    let hi: usize = args[1].parse().unwrap();
    let basis_max: usize = args.get(2).map(|s| s.parse().unwrap()).unwrap_or(32);
    let seed = seed_from_env();
    let lines: Vec<String> = (lo..hi)
        .into_par_iter()
        .filter_map(|n| {
            let text = rustfft::FftPlannerScalar::<f64>::new().verif_recipe(n);
            let tree = Tree::parse(&text)?;
            let dir = if Rng::new(seed ^ (n as u64) << 1).below(2) == 0 { FftDirection::Forward } else { FftDirection::Inverse };
            case_line(&tree, dir, seed ^ n as u64, basis_max, || FftPlanner::<Fp>::new().plan_fft(n, dir))
        })
        .collect();
    let stdout = std::io::stdout();
    let mut out = std::io::BufWriter::new(stdout.lock());
    for l in lines {
        writeln!(out, "{}", l).unwrap();
    }
}
