//! K9: the real portable algorithms (and the crate-private AVX / SSE algorithms that wrap inner transforms, through hook
//! constructors) driven with *recording mock* inner transforms of arbitrary advertised specs:
//! which inner is called, through which entry point, on which region of the caller's buffers, with which scratch.
use crate::util::*;
use rustfft::algorithm::*;
use rustfft::num_complex::Complex;
use rustfft::{Direction, Fft, FftDirection, Length};
use std::io::Write;
use std::sync::{Arc, Mutex};

type C = Complex<f64>;

#[derive(Clone, Debug)]
pub struct Rec {
    pub which: usize,
    pub kind: &'static str,
    pub data: (usize, usize),            // ptr, len
    pub out: Option<(usize, usize)>,
    pub scratch: (usize, usize),
    pub starved: bool,
}

pub struct Mock {
    pub id: usize,
    pub len: usize,
    pub inplace: usize,
    pub oop: usize,
    pub immut: usize,
    pub log: Arc<Mutex<Vec<Rec>>>,
}
impl Length for Mock {
    fn len(&self) -> usize {
        self.len
    }
}
impl Direction for Mock {
    fn fft_direction(&self) -> FftDirection {
        FftDirection::Forward
    }
}
impl Fft<f64> for Mock {
    fn process_with_scratch(&self, buffer: &mut [C], scratch: &mut [C]) {
        self.log.lock().unwrap().push(Rec { which: self.id, kind: "inplace", data: (buffer.as_ptr() as usize, buffer.len()), out: None, scratch: (scratch.as_ptr() as usize, scratch.len()), starved: scratch.len() < self.inplace });
    }
    fn process_outofplace_with_scratch(&self, input: &mut [C], output: &mut [C], scratch: &mut [C]) {
        self.log.lock().unwrap().push(Rec { which: self.id, kind: "oop", data: (input.as_ptr() as usize, input.len()), out: Some((output.as_ptr() as usize, output.len())), scratch: (scratch.as_ptr() as usize, scratch.len()), starved: scratch.len() < self.oop });
    }
    fn process_immutable_with_scratch(&self, input: &[C], output: &mut [C], scratch: &mut [C]) {
        self.log.lock().unwrap().push(Rec { which: self.id, kind: "immut", data: (input.as_ptr() as usize, input.len()), out: Some((output.as_ptr() as usize, output.len())), scratch: (scratch.as_ptr() as usize, scratch.len()), starved: scratch.len() < self.immut });
    }
    fn get_inplace_scratch_len(&self) -> usize {
        self.inplace
    }
    fn get_outofplace_scratch_len(&self) -> usize {
        self.oop
    }
    fn get_immutable_scratch_len(&self) -> usize {
        self.immut
    }
}

fn region(ptr: usize, len: usize, bufs: &[(&'static str, usize, usize)]) -> String {
    if len == 0 {
        return "empty".into();
    }
    for (name, base, blen) in bufs {
        if ptr >= *base && ptr + 16 * len <= *base + 16 * blen && *blen > 0 {
            return format!("{}[{}+{}]", name, (ptr - base) / 16, len);
        }
    }
    format!("FOREIGN[{}]", len)
}

pub fn run_case(algo: &str, entry: &str, len: usize, s0: [usize; 4], s1: [usize; 4], rng: &mut Rng) -> String {
    let log = Arc::new(Mutex::new(vec![]));
    let m0: Arc<dyn Fft<f64>> = Arc::new(Mock { id: 0, len: s0[0], inplace: s0[1], oop: s0[2], immut: s0[3], log: log.clone() });
    let m1: Arc<dyn Fft<f64>> = Arc::new(Mock { id: 1, len: s1[0], inplace: s1[1], oop: s1[2], immut: s1[3], log: log.clone() });
    let built = catch(|| -> Arc<dyn Fft<f64>> {
        match algo {
            "MixedRadix" => Arc::new(MixedRadix::new(m0, m1)),
            "MixedRadixSmall" => Arc::new(MixedRadixSmall::new(m0, m1)),
            "GoodThomas" => Arc::new(GoodThomasAlgorithm::new(m0, m1)),
            "GoodThomasSmall" => Arc::new(GoodThomasAlgorithmSmall::new(m0, m1)),
            "Raders" => Arc::new(RadersAlgorithm::new(m0)),
            "Bluesteins" => Arc::new(BluesteinsAlgorithm::new(len, m0)),
            "Radix4" => Arc::new(Radix4::new_with_base(1, m0)),
            "Radix3" => Arc::new(Radix3::new_with_base(1, m0)),
            "RadixN" => rustfft::verif_hooks::new_radixn(&[2, 3], m0),
            // the crate-private SIMD algorithms, through hook constructors
            #[cfg(feature = "avx")]
            "AvxMixedRadix" => rustfft::verif_hooks::avx_algo_f64(&format!("mr{}", len / s0[0].max(1)), len, m0).expect("avx"),
            #[cfg(feature = "avx")]
            "AvxRaders" => rustfft::verif_hooks::avx_algo_f64("raders", len, m0).expect("avx2"),
            #[cfg(feature = "avx")]
            "AvxBluesteins" => rustfft::verif_hooks::avx_algo_f64("bluesteins", len, m0).expect("avx"),
            #[cfg(feature = "sse")]
            "SseRadix4" => rustfft::verif_hooks::sse_radix4_f64(1, m0).expect("sse"),
            _ => panic!("bad algo"),
        }
    });
    let fft = match built {
        Ok(f) => f,
        Err(_) => return "CTOR-PANIC".to_string(),
    };
    if fft.len() != len {
        return format!("LEN {}", fft.len());
    }
    log.lock().unwrap().clear();
    let adv = match entry {
        "inplace" => fft.get_inplace_scratch_len(),
        "oop" => fft.get_outofplace_scratch_len(),
        _ => fft.get_immutable_scratch_len(),
    };
    // scratch longer than advertised: validate_* must trim it
    let extra = rng.below(3) as usize * 7;
    let mut a = vec![C::new(0.0, 0.0); len];
    let mut b = vec![C::new(0.0, 0.0); len];
    let mut s = vec![C::new(0.0, 0.0); adv + extra];
    let bufs: Vec<(&'static str, usize, usize)> = match entry {
        "inplace" => vec![("data", a.as_ptr() as usize, len), ("scratch", s.as_ptr() as usize, adv + extra)],
        _ => vec![("input", a.as_ptr() as usize, len), ("output", b.as_ptr() as usize, len), ("scratch", s.as_ptr() as usize, adv + extra)],
    };
    let r = catch(|| match entry {
        "inplace" => fft.process_with_scratch(&mut a, &mut s),
        "oop" => fft.process_outofplace_with_scratch(&mut a, &mut b, &mut s),
        _ => fft.process_immutable_with_scratch(&a, &mut b, &mut s),
    });
    if let Err(e) = r {
        return format!("PANIC {}", e.chars().take(60).collect::<String>());
    }
    let recs = log.lock().unwrap().clone();
    let mut parts = vec![];
    for r in &recs {
        let o = match r.out {
            Some((p, l)) => format!(" out={}", region(p, l, &bufs)),
            None => String::new(),
        };
        let st = if r.starved { " STARVED" } else { "" };
        parts.push(format!("{}:{} data={}{} scratch={}{}", r.which, r.kind, region(r.data.0, r.data.1, &bufs), o, region(r.scratch.0, r.scratch.1, &bufs), st));
    }
    format!("adv={} | {}", adv, parts.join("; "))
}

fn pick_scr(rng: &mut Rng, ilen: usize, olen: usize) -> usize {
    match rng.below(7) {
        0 => 0,
        1 => ilen / 2,
        2 => ilen,
        3 => ilen + 1 + rng.below(4) as usize,
        4 => olen,
        5 => olen + 1 + rng.below(9) as usize,
        _ => 3 * olen + 2,
    }
}

pub fn run(args: &[String]) {
    let count: usize = args[0].parse().unwrap();
    let mut rng = Rng::new(seed_from_env() ^ 0x9999);
    let stdout = std::io::stdout();
    let mut out = std::io::BufWriter::new(stdout.lock());
    let coprime_pairs = [(2usize, 3usize), (3, 4), (4, 5), (5, 6), (3, 8), (7, 9), (5, 2), (9, 4), (1, 5), (6, 1), (11, 3)];
    let any_pairs = [(2usize, 2usize), (3, 6), (4, 4), (6, 9), (8, 2), (5, 5), (1, 4), (12, 3)];
    let rader_inner = [2usize, 4, 6, 10, 12, 16, 18, 22, 28, 30, 36];
    for i in 0..count {
        let algo = ["MixedRadix", "MixedRadixSmall", "GoodThomas", "GoodThomasSmall", "Raders", "Bluesteins", "Radix4", "Radix3", "RadixN",
            "AvxMixedRadix", "AvxRaders", "AvxBluesteins", "SseRadix4"][i % 13];
        // the crate-private SIMD algorithms exist only when their cargo feature is compiled in (and need the CPU features at run time)
        if algo.starts_with("Avx") && !(cfg!(feature = "avx") && std::is_x86_feature_detected!("avx2") && std::is_x86_feature_detected!("fma")) {
            continue;
        }
        if algo.starts_with("Sse") && !(cfg!(feature = "sse") && std::is_x86_feature_detected!("sse4.1")) {
            continue;
        }
        let entry = ["inplace", "oop", "immut"][(i / 13) % 3];
        let (len, s0, s1): (usize, [usize; 4], [usize; 4]) = match algo {
            "MixedRadix" | "MixedRadixSmall" | "GoodThomas" | "GoodThomasSmall" => {
                let (mut w, mut h) = if algo.starts_with("Good") || rng.below(2) == 0 { coprime_pairs[rng.below(coprime_pairs.len() as u64) as usize] } else { any_pairs[rng.below(any_pairs.len() as u64) as usize] };
                if rng.below(2) == 0 {
                    std::mem::swap(&mut w, &mut h);
                }
                let len = w * h;
                let small = algo.ends_with("Small");
                let mut s0 = [w, pick_scr(&mut rng, w, len), if rng.below(2) == 0 { 0 } else { pick_scr(&mut rng, w, len) }, pick_scr(&mut rng, w, len)];
                let mut s1 = [h, pick_scr(&mut rng, h, len), if rng.below(2) == 0 { 0 } else { pick_scr(&mut rng, h, len) }, pick_scr(&mut rng, h, len)];
                if small && rng.below(8) != 0 {
                    s0[1] = s0[1].min(w);
                    s0[2] = 0;
                    s1[1] = s1[1].min(h);
                    s1[2] = 0;
                }
                // Good-Thomas swaps so that width <= height: report the specs in the constructor's post-swap order
                if algo == "GoodThomas" && s0[0] > s1[0] {
                    (len, s1, s0)
                } else {
                    (len, s0, s1)
                }
            }
            "AvxMixedRadix" => {
                let r = [2usize, 3, 4, 5, 6, 7, 8, 9, 11, 12, 16][rng.below(11) as usize];
                let m = 1 + rng.below(13) as usize;
                let len = r * m;
                (len, [m, pick_scr(&mut rng, m, len), pick_scr(&mut rng, m, len), pick_scr(&mut rng, m, len)], [0; 4])
            }
            "AvxRaders" => {
                // the immutable entry starves its first inner call when inner.inplace > inner.len: both sides report STARVED
                let m = rader_inner[rng.below(rader_inner.len() as u64) as usize];
                (m + 1, [m, pick_scr(&mut rng, m, m + 1), pick_scr(&mut rng, m, m + 1), pick_scr(&mut rng, m, m + 1)], [0; 4])
            }
            "AvxBluesteins" => {
                // the inner length must be a multiple of the vector width (2 complex f64)
                let n = 1 + rng.below(9) as usize;
                let m = (2 * n - 1 + rng.below(6) as usize + 1) / 2 * 2;
                (n, [m, pick_scr(&mut rng, m, m), pick_scr(&mut rng, m, m), pick_scr(&mut rng, m, m)], [0; 4])
            }
            "SseRadix4" => {
                // base length a multiple of 2 * COMPLEX_PER_VECTOR (= 2 for f64); the base always gets an empty scratch
                let b = 2 * (1 + rng.below(6) as usize);
                let inpl = if rng.below(3) == 0 { pick_scr(&mut rng, b, 4 * b) } else { 0 };
                (4 * b, [b, inpl, pick_scr(&mut rng, b, 4 * b), pick_scr(&mut rng, b, 4 * b)], [0; 4])
            }
            "Raders" => {
                let m = rader_inner[rng.below(rader_inner.len() as u64) as usize];
                (m + 1, [m, pick_scr(&mut rng, m, m + 1), pick_scr(&mut rng, m, m + 1), pick_scr(&mut rng, m, m + 1)], [0; 4])
            }
            "Bluesteins" => {
                let n = 1 + rng.below(9) as usize;
                let m = 2 * n - 1 + rng.below(6) as usize;
                (n, [m, pick_scr(&mut rng, m, m), pick_scr(&mut rng, m, m), pick_scr(&mut rng, m, m)], [0; 4])
            }
            "Radix4" => {
                let b = 1 + rng.below(6) as usize;
                (4 * b, [b, pick_scr(&mut rng, b, 4 * b), pick_scr(&mut rng, b, 4 * b), pick_scr(&mut rng, b, 4 * b)], [0; 4])
            }
            "Radix3" => {
                let b = 1 + rng.below(6) as usize;
                (3 * b, [b, pick_scr(&mut rng, b, 3 * b), pick_scr(&mut rng, b, 3 * b), pick_scr(&mut rng, b, 3 * b)], [0; 4])
            }
            _ => {
                let b = 1 + rng.below(6) as usize;
                (6 * b, [b, pick_scr(&mut rng, b, 6 * b), pick_scr(&mut rng, b, 6 * b), pick_scr(&mut rng, b, 6 * b)], [0; 4])
            }
        };
        // for GoodThomas the mocks must be passed in the pre-swap order too; the constructor's swap makes both orders equivalent
        let ans = run_case(algo, entry, len, s0, s1, &mut rng);
        writeln!(out, "calls {} {} {} {} {} {} {} {} {} {} {}\t{}", algo, entry, len, s0[0], s0[1], s0[2], s0[3], s1[0], s1[1], s1[2], s1[3], ans).unwrap();
    }
}
