//! K1: real `math_utils` functions (via hook H3) as `request<TAB>answer` lines for the Lean model to reproduce.
use crate::util::*;
use rustfft::verif_hooks as vh;
use std::io::Write;

pub fn fmt_factors(f: &vh::PrimeFactors) -> String {
    let os: Vec<String> = f.get_other_factors().iter().map(|x| format!("{}:{}", x.value, x.count)).collect();
    format!(
        "{} {} [{}] {} {}",
        f.get_power_of_two(),
        f.get_power_of_three(),
        os.join(" "),
        f.get_total_factor_count(),
        f.get_distinct_factor_count()
    )
}

fn emit_n(out: &mut impl Write, n: usize) {
    let f = vh::PrimeFactors::compute(n);
    writeln!(out, "pf {}\t{}", n, fmt_factors(&f)).unwrap();
    if n >= 2 && !f.is_prime() {
        match catch(|| f.clone().partition_factors()) {
            Ok((l, r)) => writeln!(
                out,
                "part {}\t{} {} | {} | {}",
                n,
                l.get_product(),
                r.get_product(),
                fmt_factors(&l),
                fmt_factors(&r)
            )
            .unwrap(),
            Err(e) => writeln!(out, "part {}\tERR {}", n, e).unwrap(),
        }
    }
    let p = vh::PartialFactors::compute(n);
    writeln!(
        out,
        "pfr {}\t{} {} {} {} {} {}",
        n,
        p.get_power2(),
        p.get_power3(),
        p.get_power5(),
        p.get_power7(),
        p.get_power11(),
        p.get_other_factors()
    )
    .unwrap();
    let d: Vec<String> = vh::distinct_prime_factors(n as u64).iter().map(|x| x.to_string()).collect();
    writeln!(out, "dpf {}\t{}", n, d.join(" ")).unwrap();
    // `modular_exponent::<u64>` multiplies two residues: exact only for moduli below 2^32 (recorded in DESIGN.md)
    if (n as u64) < (1u64 << 32) && is_prime_u64(n as u64) {
        match catch(|| vh::primitive_root(n as u64)) {
            Ok(Some(g)) => writeln!(out, "proot {}\t{}", n, g).unwrap(),
            Ok(None) => writeln!(out, "proot {}\tnone", n).unwrap(),
            Err(e) => writeln!(out, "proot {}\tERR {}", n, e).unwrap(),
        }
    }
}

/// structured large n: p^2, p*q twins, smooth numbers, near powers of two
pub fn structured(seed: u64, count: usize, max_bits: u32) -> Vec<usize> {
    let mut rng = Rng::new(seed);
    let mut v = Vec::new();
    let primes: Vec<u64> = (2..2000u64).filter(|&p| is_prime_u64(p)).collect();
    while v.len() < count {
        let kind = rng.below(8);
        let lim = 1u64 << max_bits;
        let n = match kind {
            0 => {
                let p = primes[rng.below(primes.len() as u64) as usize];
                p * p
            }
            1 => {
                let i = rng.below(primes.len() as u64 - 1) as usize;
                primes[i] * primes[i + 1]
            }
            2 => {
                let mut n = 1u64;
                for &q in &[2u64, 3, 5, 7, 11] {
                    let e = rng.below(6);
                    for _ in 0..e {
                        if n * q < lim {
                            n *= q;
                        }
                    }
                }
                n
            }
            3 => {
                let b = 4 + rng.below(max_bits as u64 - 4);
                (1u64 << b) + rng.below(7) - 3
            }
            4 => {
                // a large prime
                let mut c = rng.below(lim - 10) + 5;
                while !is_prime_u64(c) {
                    c += 1;
                }
                c
            }
            5 | 6 => {
                // a large prime p with p - 1 smooth over {2,3,5,7,11}: planned as Rader's algorithm by every planner
                let lo = (lim / 8).max(64);
                let mut found = 0u64;
                for _ in 0..400 {
                    let mut m = 2u64;
                    while m < lo {
                        m *= [2u64, 2, 2, 3, 3, 5, 7, 11][rng.below(8) as usize];
                    }
                    if m + 1 < lim && is_prime_u64(m + 1) {
                        found = m + 1;
                        break;
                    }
                }
                if found == 0 { rng.below(lim - 2) + 2 } else { found }
            }
            _ => rng.below(lim - 2) + 2,
        };
        if n >= 1 && n < lim {
            v.push(n as usize);
        }
    }
    v
}

pub fn run(args: &[String]) {
    let lo: usize = args[0].parse().unwrap();
    let hi: usize = args[1].parse().unwrap();
    let nstruct: usize = args.get(2).map(|s| s.parse().unwrap()).unwrap_or(0);
    let stdout = std::io::stdout();
    let mut out = std::io::BufWriter::new(stdout.lock());
    for n in lo.max(1)..hi {
        emit_n(&mut out, n);
    }
    for n in structured(seed_from_env(), nstruct, 34) {
        emit_n(&mut out, n);
    }
}

/// hypothesis of the Lean model: the real f32 limit is never below `isqrt(m) + 1`
pub fn sqrtlim(args: &[String]) {
    let hi: u64 = args[0].parse().unwrap();
    let mut rep = crate::report::Report::default();
    let mut above = 0u64;
    for m in 1..hi {
        let real = vh::f32_sqrt_limit(m as usize) as u64;
        let model = isqrt(m) + 1;
        rep.evaluations += 1;
        if m >= 25 {
            rep.nontrivial += 1;
        }
        if real < model {
            rep.fail(format!("sqrtlim {}", m), format!("real limit {} < isqrt+1 = {}", real, model));
        } else if real > model {
            above += 1;
        }
    }
    rep.hist.insert("real_limit_above_model".into(), above);
    rep.sample(format!("m=1..{}: (m as f32).sqrt() as usize + 1 >= isqrt(m) + 1", hi));
    rep.print("S04-sqrtlim", "every m below the bound (exhaustive); non-trivial = m >= 25 (the first odd square reached by the divisor loop)");
}
