//! K7: which planners construct and which one `FftPlanner::new` chooses, under every CPU-feature mask (hook H2),
//! for f32, f64 and the third element type Fp; cargo features are those this binary was built with.
use crate::fp::Fp;
use rustfft::{FftNum, FftPlanner, FftPlannerAvx, FftPlannerSse};
use std::io::Write;

fn line<T: FftNum>(cf_avx: bool, cf_sse: bool, mask: u32, ty: &str, out: &mut impl Write) {
    rustfft::verif_hooks::set_feature_mask(mask);
    let r = crate::util::catch(|| {
        let avx = FftPlannerAvx::<T>::new().is_ok();
        let sse = FftPlannerSse::<T>::new().is_ok();
        let kind = FftPlanner::<T>::new().verif_kind();
        format!("avx={} sse={} choice={}", if avx { "ok" } else { "err" }, if sse { "ok" } else { "err" }, kind)
    });
    rustfft::verif_hooks::set_feature_mask(u32::MAX);
    let ans = match r {
        Ok(s) => s,
        Err(e) => format!("PANIC {}", e),
    };
    writeln!(out, "decide {} {} {} {}\t{}", cf_avx as u8, cf_sse as u8, mask, ty, ans).unwrap();
}

pub fn run(_args: &[String]) {
    let cf_avx = cfg!(feature = "avx");
    let cf_sse = cfg!(feature = "sse");
    let stdout = std::io::stdout();
    let mut out = std::io::BufWriter::new(stdout.lock());
    for mask in 0..16u32 {
        line::<f32>(cf_avx, cf_sse, mask, "f32", &mut out);
        line::<f64>(cf_avx, cf_sse, mask, "f64", &mut out);
        line::<Fp>(cf_avx, cf_sse, mask, "other", &mut out);
    }
}
