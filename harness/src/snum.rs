//! numeric search shared by C01 / C02 (/C13): every planner x f32/f64 x direction x four entry points against the
//! independent reference DFT; relative L2 error must stay below 16*eps*log2(2n).
use crate::inputs;
use crate::planners::*;
use crate::real::*;
use crate::refdft::*;
use crate::report::*;
use crate::s07::{run_entry, ENTRY_NAMES};
use crate::util::*;
use rayon::prelude::*;
use rustfft::num_complex::Complex;
use rustfft::FftDirection;

pub fn bound(eps: f64, n: usize) -> f64 {
    16.0 * eps * ((2 * n.max(1)) as f64).log2().max(1.0)
}

fn to_t<T: Real>(x: &[(f64, f64)]) -> Vec<Complex<T>> {
    x.iter().map(|&(r, i)| cx(r, i)).collect()
}

/// relative L2 error of `out` against the reference on the bins `bins` (all bins when `bins` is None)
fn rel_err<T: Real>(out: &[Complex<T>], reference: &[(f64, f64)], bins: Option<&[usize]>, x_norm2: f64) -> f64 {
    let err2 = |k: usize, i: usize| -> f64 {
        let dr = out[k].re.to() - reference[i].0;
        let di = out[k].im.to() - reference[i].1;
        dr * dr + di * di
    };
    match bins {
        None => {
            let mut num = 0.0;
            let mut den = 0.0;
            for k in 0..out.len() {
                num += err2(k, k);
                den += reference[k].0 * reference[k].0 + reference[k].1 * reference[k].1;
            }
            if !num.is_finite() {
                return f64::INFINITY;
            }
            if den == 0.0 {
                return if num == 0.0 { 0.0 } else { f64::INFINITY };
            }
            (num / den).sqrt()
        }
        Some(b) => {
            // sampled bins. The property's measure is the error relative to the WHOLE exact spectrum, whose squared norm is
            // n*|x|^2 (Parseval). The last FORCED bins (0, n/2, n-1: where structured inputs concentrate their energy) enter
            // with weight 1, the randomly drawn bins stand for the remaining n - FORCED bins.
            let n = out.len() as f64;
            let nrandom = b.len() - FORCED;
            let mut rnd = 0.0;
            for (i, &k) in b.iter().enumerate().take(nrandom) {
                rnd += err2(k, i);
            }
            let mut forced = 0.0;
            for (i, &k) in b.iter().enumerate().skip(nrandom) {
                forced += err2(k, i);
            }
            let total = forced + rnd * (n - FORCED as f64).max(0.0) / nrandom.max(1) as f64;
            if !total.is_finite() {
                return f64::INFINITY;
            }
            let den = n * x_norm2;
            if den == 0.0 {
                return if total == 0.0 { 0.0 } else { f64::INFINITY };
            }
            (total / den).sqrt()
        }
    }
}
const FORCED: usize = 3;

struct Case {
    class: &'static str,
    x: Vec<(f64, f64)>,
    /// reference per direction: (bins or None, values)
    refs: [(Option<Vec<usize>>, Vec<(f64, f64)>); 2],
}

fn make_case(class: &'static str, n: usize, rng: &mut Rng, full_max: usize, nbins: usize) -> Case {
    let x = inputs::make(class, n, rng);
    let mk = |inverse: bool, rng: &mut Rng| {
        if n <= full_max {
            (None, ref_dft(&x, inverse))
        } else {
            let tw = twiddle_table(n, inverse);
            let mut bins: Vec<usize> = (0..nbins).map(|_| rng.below(n as u64) as usize).collect();
            bins.push(0);
            bins.push(n / 2);
            bins.push(n - 1);
            let vals = bins.iter().map(|&k| ref_bin(&x, &tw, k)).collect();
            (Some(bins), vals)
        }
    };
    let f = mk(false, rng);
    let i = mk(true, rng);
    Case { class, x, refs: [f, i] }
}

fn run_type<T: Real>(kinds: &[Kind], n: usize, cases: &[Case], name: &str, worst: &mut f64, rep: &mut Report) {
    let b = bound(T::EPS, n);
    for &kind in kinds {
        for (di, dir) in [FftDirection::Forward, FftDirection::Inverse].iter().enumerate() {
            let tag = format!("{}/{}/n={}/{}", kind.name(), T::NAME, n, dir_name(*dir));
            let fft = match catch(|| AnyPlanner::<T>::new(kind).expect("planner unavailable").plan(n, *dir)) {
                Err(e) => {
                    rep.fail(format!("plan-panic {}", tag), e);
                    continue;
                }
                Ok(f) => f,
            };
            for case in cases {
                let input = to_t::<T>(&case.x);
                for entry in 0..4 {
                    rep.evaluations += 1;
                    if n >= 2 {
                        rep.nontrivial += 1;
                    }
                    match catch(|| run_entry(&fft, entry, &input, Complex::new(T::nan(), T::nan()))) {
                        Err(e) => rep.fail(format!("panic {} {} {}", tag, ENTRY_NAMES[entry], case.class), e),
                        Ok(out) => {
                            let (bins, vals) = &case.refs[di];
                            let x_norm2: f64 = case.x.iter().map(|v| v.0 * v.0 + v.1 * v.1).sum();
                            let e = rel_err(&out, vals, bins.as_deref(), x_norm2);
                            let ratio = e / b;
                            if ratio > *worst {
                                *worst = ratio;
                            }
                            rep.count(&format!("{}:{}", name, case.class));
                            if !(e <= b + 4.0 * f64::EPSILON) {
                                rep.fail(
                                    format!("{} {} {} {}", name, tag, ENTRY_NAMES[entry], case.class),
                                    format!("relative L2 error {:e} exceeds 16*eps*log2(2n) = {:e} ({} bins compared)", e, b, bins.as_ref().map(|b| b.len()).unwrap_or(n)),
                                );
                            }
                        }
                    }
                }
            }
        }
    }
}

/// args: <name> <lo> <hi> <n_structured> <max_bits> <classes(comma)> <basis_max> <full_ref_max> <planners(comma)|all>
pub fn run(args: &[String]) {
    let name = args[0].clone();
    let lo: usize = args[1].parse().unwrap();
    let hi: usize = args[2].parse().unwrap();
    let nstruct: usize = args[3].parse().unwrap();
    let max_bits: u32 = args[4].parse().unwrap();
    let classes: Vec<&'static str> = args[5].split(',').map(|c| *inputs::CLASSES.iter().find(|x| **x == c).expect("bad class")).collect();
    let basis_max: usize = args[6].parse().unwrap();
    let full_max: usize = args[7].parse().unwrap();
    let kinds: Vec<Kind> = if args.get(8).map(|s| s.as_str()).unwrap_or("all") == "all" { avail() } else { args[8].split(',').map(Kind::parse).collect() };
    let seed = seed_from_env() ^ 0x1234;
    let mut ns: Vec<usize> = (lo..hi).collect();
    ns.extend(crate::k1::structured(seed, nstruct, max_bits).into_iter().filter(|&n| n >= 1));
    ns.extend(ANCHOR_LENS.iter().copied().filter(|&n| n >= hi && (n as u64) < (1u64 << max_bits)));
    let shared = Shared::new();
    let worst32 = std::sync::Mutex::new(0.0f64);
    let worst64 = std::sync::Mutex::new(0.0f64);
    ns.par_iter().for_each(|&n| {
        let mut rep = Report::default();
        let mut rng = Rng::new(seed ^ (n as u64).wrapping_mul(0x9E37));
        let mut cases: Vec<Case> = vec![];
        for &c in &classes {
            cases.push(make_case(c, n, &mut rng, full_max, 48));
        }
        if n <= basis_max {
            // the whole impulse basis: the transform's matrix is pinned column by column
            for j in 0..n {
                for part in 0..2 {
                    let mut x = vec![(0.0, 0.0); n];
                    x[j] = if part == 0 { (1.0, 0.0) } else { (0.0, 1.0) };
                    let f = ref_dft(&x, false);
                    let i = ref_dft(&x, true);
                    cases.push(Case { class: "basis", x, refs: [(None, f), (None, i)] });
                }
            }
        }
        let mut w32 = 0.0;
        let mut w64 = 0.0;
        run_type::<f32>(&kinds, n, &cases, &name, &mut w32, &mut rep);
        run_type::<f64>(&kinds, n, &cases, &name, &mut w64, &mut rep);
        {
            let mut g = worst32.lock().unwrap();
            if w32 > *g {
                *g = w32;
            }
            let mut g = worst64.lock().unwrap();
            if w64 > *g {
                *g = w64;
            }
        }
        if n == 97 || n == 360 || n > 60000 {
            rep.sample(format!("n={} inputs {:?}{} x planners {:?} x f32/f64 x fwd/inv x 4 entry points vs double-double reference", n, classes, if n <= basis_max { " + full impulse basis" } else { "" }, kinds.iter().map(|k| k.name()).collect::<Vec<_>>()));
        }
        shared.merge(rep);
    });
    let mut rep = shared.into_inner();
    rep.hist.insert("worst_error_over_bound_f32_permille".into(), (*worst32.lock().unwrap() * 1000.0) as u64);
    rep.hist.insert("worst_error_over_bound_f64_permille".into(), (*worst64.lock().unwrap() * 1000.0) as u64);
    rep.print(&name, "one case per (planner, type, n, direction, input vector, entry point); reference = double-double DFT (all bins up to the full-reference limit, 51 sampled bins above); non-trivial = n >= 2");
}
