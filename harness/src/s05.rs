//! search for C05 on the real code: operation count of the portable planned transform <= 64 n log2 n; no naive
//! quadratic sub-transform above length 32 in any planner's plan; every advertised scratch length <= 12 n + 64.
use crate::etypes::OpCount;
use crate::planners::*;
use crate::report::*;
use crate::util::*;
use rayon::prelude::*;
use rustfft::{FftDirection, FftPlanner};

fn numbers_after(text: &str, key: &str) -> Vec<usize> {
    let mut v = vec![];
    let mut rest = text;
    while let Some(i) = rest.find(key) {
        let tail = &rest[i + key.len()..];
        let num: String = tail.chars().take_while(|c| c.is_ascii_digit()).collect();
        if let Ok(x) = num.parse() {
            v.push(x);
        }
        rest = tail;
    }
    v
}

pub fn run(args: &[String]) {
    let hi: usize = args[0].parse().unwrap();
    let nstruct: usize = args[1].parse().unwrap();
    let bits: u32 = args[2].parse().unwrap();
    let seed = seed_from_env() ^ 0x0505;
    let mut ns: Vec<usize> = (2..hi).collect();
    ns.extend(crate::k1::structured(seed, nstruct, bits).into_iter().filter(|&n| n >= 2));
    let shared = Shared::new();
    let worst_ops = std::sync::Mutex::new((0.0f64, 0usize));
    let worst_scr = std::sync::Mutex::new((0.0f64, 0usize));
    ns.par_iter().for_each(|&n| {
        let mut rep = Report::default();
        // (1) operations, portable planner through FftPlanner::<OpCount>
        rep.evaluations += 1;
        rep.nontrivial += 1;
        if n <= (1 << 17) {
            match catch(|| {
                let fft = FftPlanner::<OpCount>::new().plan_fft(n, FftDirection::Forward);
                crate::k8::count_ops(&fft, n)
            }) {
                Err(e) => rep.fail(format!("ops-panic n={}", n), e),
                Ok(ops) => {
                    let lim = 64.0 * n as f64 * (n as f64).log2();
                    let ratio = ops as f64 / (n as f64 * (n as f64).log2());
                    {
                        let mut w = worst_ops.lock().unwrap();
                        if ratio > w.0 {
                            *w = (ratio, n);
                        }
                    }
                    if ops as f64 > lim {
                        rep.fail(format!("ops n={}", n), format!("{} operations > 64 n log2 n = {:.0}", ops, lim));
                    }
                }
            }
        }
        // (2) no naive node, from the plan reports (hook H1)
        for kind in ["scalar", "sse", "avx32", "avx64"] {
            let text = crate::k2::recipe_line(kind, n);
            if text.starts_with("ERR") {
                if !text.contains("not compiled in") && !text.contains("unavailable") {
                    rep.fail(format!("plan-panic {} n={}", kind, n), text.clone());
                }
                continue;
            }
            for m in numbers_after(&text, "(Dft ") {
                if m >= 2 {
                    rep.fail(format!("naive-node {} n={}", kind, n), format!("plan contains a naive Dft of length {}: {}", m, text.chars().take(120).collect::<String>()));
                }
            }
            for m in numbers_after(&text, "(Butterfly ").into_iter().chain(numbers_after(&text, "(PrimeButterfly ")) {
                if m > 32 {
                    rep.fail(format!("big-butterfly {} n={}", kind, n), format!("dense kernel of length {} in the plan", m));
                }
            }
            for m in numbers_after(&text, "(Bfly ") {
                // AVX: lengths 0/1 are built as Dft (fine), the rest must be in the butterfly table (<= 512, none of them naive above 32)
                if m > 512 {
                    rep.fail(format!("big-butterfly {} n={}", kind, n), format!("AVX base butterfly of length {}", m));
                }
            }
        }
        // (3) advertised scratch
        for kind in avail() {
            for ty in 0..2 {
                let r = catch(|| {
                    if ty == 0 {
                        let f = AnyPlanner::<f32>::new(kind).unwrap().plan(n, FftDirection::Forward);
                        [f.get_inplace_scratch_len(), f.get_outofplace_scratch_len(), f.get_immutable_scratch_len()]
                    } else {
                        let f = AnyPlanner::<f64>::new(kind).unwrap().plan(n, FftDirection::Inverse);
                        [f.get_inplace_scratch_len(), f.get_outofplace_scratch_len(), f.get_immutable_scratch_len()]
                    }
                });
                rep.evaluations += 1;
                rep.nontrivial += 1;
                match r {
                    Err(e) => rep.fail(format!("plan-panic {} n={}", kind.name(), n), e),
                    Ok(s) => {
                        for (i, v) in s.iter().enumerate() {
                            let ratio = (*v as f64 - 64.0).max(0.0) / n as f64;
                            {
                                let mut w = worst_scr.lock().unwrap();
                                if ratio > w.0 {
                                    *w = (ratio, n);
                                }
                            }
                            if *v > 12 * n + 64 {
                                rep.fail(format!("scratch {}/{} n={} entry{}", kind.name(), if ty == 0 { "f32" } else { "f64" }, n, i), format!("advertised {} > 12 n + 64 = {}", v, 12 * n + 64));
                            }
                        }
                    }
                }
            }
        }
        shared.merge(rep);
    });
    // (4) the scratch clause under planner HISTORY: one long-lived planner per (kind, type); large smooth lengths first (they
    // become cached inner-FFT candidates), then Bluestein / Rader lengths whose inner length lies near them
    {
        let mut rep = Report::default();
        let bases = [2048usize, 3072, 4096, 6144, 6912, 8192, 9216, 10368, 13824, 16384, 20736];
        let primes: Vec<usize> = (500..11000usize).filter(|&p| crate::util::is_prime_u64(p as u64)).collect();
        for kind in avail() {
            for ty in 0..2 {
                let r = catch(|| {
                    let mut fails: Vec<(String, String)> = vec![];
                    let mut evals = 0u64;
                    let mut rng = Rng::new(seed ^ 0x4157 ^ ty as u64);
                    let mut check = |name: &str, n: usize, s: [usize; 3], len: usize, fails: &mut Vec<(String, String)>| {
                        if len != n {
                            fails.push((format!("history-len {}/{} n={}", name, if ty == 0 { "f32" } else { "f64" }, n), format!("reports len {}", len)));
                        }
                        for (i, v) in s.iter().enumerate() {
                            if *v > 12 * n + 64 {
                                fails.push((format!("history-scratch {}/{} n={} entry{}", name, if ty == 0 { "f32" } else { "f64" }, n, i), format!("advertised {} > 12 n + 64 = {} on a planner that had planned other lengths before", v, 12 * n + 64)));
                            }
                        }
                    };
                    macro_rules! go {
                        ($t:ty) => {{
                            for &b in bases.iter() {
                                // a fresh planner per base: with many smooth lengths cached the SMALLEST cached candidate would be
                                // reused; the bound is at risk when only a large one is there
                                let mut p = AnyPlanner::<$t>::new(kind).unwrap();
                                for d in [FftDirection::Forward, FftDirection::Inverse] {
                                    let f = p.plan(b, d);
                                    evals += 1;
                                    check(kind.name(), b, [f.get_inplace_scratch_len(), f.get_outofplace_scratch_len(), f.get_immutable_scratch_len()], f.len(), &mut fails);
                                }
                                for round in 0..16 {
                                    // a prime (or twice / three times a prime) whose Bluestein inner length 2n-1.. lies below the base;
                                    // half of the draws from [b/11.5, b/6.5]: there 2*b > 12*n + 64, so an inner FFT of length b would break the bound
                                    let q = primes[rng.below(primes.len() as u64) as usize];
                                    let mut n = q * [1usize, 1, 2, 3][rng.below(4) as usize];
                                    if round % 2 == 0 {
                                        let lo = b * 2 / 23;
                                        let hi = b * 2 / 13;
                                        let cands: Vec<usize> = primes.iter().copied().filter(|&p| p >= lo && p <= hi).collect();
                                        if cands.is_empty() {
                                            continue;
                                        }
                                        n = cands[rng.below(cands.len() as u64) as usize];
                                    }
                                    if 2 * n > b + b / 2 || n < b / 12 {
                                        continue;
                                    }
                                    let d = if rng.below(2) == 0 { FftDirection::Forward } else { FftDirection::Inverse };
                                    let f = p.plan(n, d);
                                    evals += 1;
                                    check(kind.name(), n, [f.get_inplace_scratch_len(), f.get_outofplace_scratch_len(), f.get_immutable_scratch_len()], f.len(), &mut fails);
                                }
                            }
                        }};
                    }
                    if ty == 0 {
                        go!(f32)
                    } else {
                        go!(f64)
                    }
                    (fails, evals)
                });
                match r {
                    Err(e) => rep.fail(format!("history-panic {}/{}", kind.name(), if ty == 0 { "f32" } else { "f64" }), e),
                    Ok((fails, evals)) => {
                        rep.evaluations += evals;
                        rep.nontrivial += evals;
                        for (k, d) in fails {
                            rep.fail(k, d);
                        }
                    }
                }
            }
        }
        shared.merge(rep);
    }
    // (5) the operation-count clause under planner HISTORY (portable planner at T = OpCount): a composite m = 2q / 3q
    // (q a prime that itself needs Bluestein / Rader) with 2n - 1 <= m < next_pow2(2n - 1) is planned first, then the
    // Bluestein prime n — a planner that reuses earlier designs as inner transforms would nest Bluestein in Bluestein
    {
        let mut rep = Report::default();
        let is_p = |x: usize| crate::util::is_prime_u64(x as u64);
        for &n in [59usize, 83, 107, 149, 167, 263, 1031].iter() {
            let lo = 2 * n - 1;
            let hi2 = lo.next_power_of_two();
            let mut ms: Vec<usize> = (lo..hi2).filter(|&m| m % n != 0 && ((m % 2 == 0 && is_p(m / 2) && m / 2 > 31) || (m % 3 == 0 && is_p(m / 3) && m / 3 > 31))).collect();
            ms.truncate(6);
            for m in ms {
                rep.evaluations += 1;
                rep.nontrivial += 1;
                match catch(|| {
                    let mut p = FftPlanner::<OpCount>::new();
                    let _first = p.plan_fft(m, FftDirection::Forward);
                    let fft = p.plan_fft(n, FftDirection::Forward);
                    crate::k8::count_ops(&fft, n)
                }) {
                    Err(e) => rep.fail(format!("history-ops-panic plan {} then {}", m, n), e),
                    Ok(ops) => {
                        let lim = 64.0 * n as f64 * (n as f64).log2();
                        if ops as f64 > lim {
                            rep.fail(format!("history-ops n={} after planning {}", n, m), format!("{} operations > 64 n log2 n = {:.0} on a planner that had planned {} before", ops, lim, m));
                        }
                    }
                }
            }
        }
        shared.merge(rep);
    }
    let mut rep = shared.into_inner();
    let wo = worst_ops.lock().unwrap();
    let ws = worst_scr.lock().unwrap();
    rep.hist.insert(format!("worst ops/(n log2 n) x100 (at n={})", wo.1), (wo.0 * 100.0) as u64);
    rep.hist.insert(format!("worst (scratch-64)/n x100 (at n={})", ws.1), (ws.0 * 100.0) as u64);
    rep.sample(format!("n in 2..{} + {} structured below 2^{}: exact op count at T = OpCount (portable planner), plan texts of 4 planners, 3 scratch lengths x planners x f32/f64", hi, nstruct, bits));
    rep.print("S05-work", "one case per n (operations) and per (planner, type, n) (scratch); non-trivial = all (n >= 2)");
}
