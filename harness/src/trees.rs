//! generator of expression trees over the public algorithm constructors (within and, deliberately, outside their
//! documented preconditions), K4 on those trees (exact, T = Fp) and the f32/f64 search S12.
use crate::fp::Fp;
use crate::guard::*;
use crate::k4::case_line;
use crate::real::*;
use crate::refdft::*;
use crate::report::*;
use crate::snum::bound;
use crate::tree::*;
use crate::util::*;
use rayon::prelude::*;
use rustfft::num_complex::Complex;
use rustfft::{Fft, FftDirection};
use std::io::Write;
use std::sync::Arc;

fn gcd(a: usize, b: usize) -> usize {
    if b == 0 {
        a
    } else {
        gcd(b, a % b)
    }
}

pub fn leaves() -> Vec<Tree> {
    let mut v: Vec<Tree> = BUTTERFLY_LENS.iter().map(|&n| Tree::Bfly(n)).collect();
    for n in [1usize, 2, 3, 4, 5, 6, 10, 14, 15] {
        v.push(Tree::Dft(n));
    }
    v
}

/// all depth-1 trees over the given children that respect the documented preconditions, composite length <= max_len
pub fn depth1(children: &[Tree], max_len: usize, rng: &mut Rng, sample: Option<usize>) -> Vec<Tree> {
    let mut out = vec![];
    for l in children {
        for r in children {
            let len = l.len() * r.len();
            if len == 0 || len > max_len {
                continue;
            }
            out.push(Tree::MixedRadix(Box::new(l.clone()), Box::new(r.clone())));
            out.push(Tree::MixedRadixSmall(Box::new(l.clone()), Box::new(r.clone())));
            if gcd(l.len(), r.len()) == 1 {
                out.push(Tree::GoodThomas(Box::new(l.clone()), Box::new(r.clone())));
                out.push(Tree::GoodThomasSmall(Box::new(l.clone()), Box::new(r.clone())));
            }
        }
    }
    for i in children {
        let m = i.len();
        if m >= 1 && is_prime_u64(m as u64 + 1) && m + 1 <= max_len {
            out.push(Tree::Raders(Box::new(i.clone())));
        }
        if m >= 1 {
            // every n with 2n-1 <= m (a few of them)
            let top = (m + 1) / 2;
            for n in [1usize, 2, top.max(1), (top + 1) / 2] {
                if n >= 1 && 2 * n - 1 <= m {
                    out.push(Tree::Bluesteins(n, Box::new(i.clone())));
                }
            }
            for k in 0..=2usize {
                if (m << (2 * k)) <= max_len {
                    out.push(Tree::Radix4(k, Box::new(i.clone())));
                }
                if m * 3usize.pow(k as u32) <= max_len {
                    out.push(Tree::Radix3(k, Box::new(i.clone())));
                }
            }
            for fs in [vec![2usize], vec![3], vec![5, 2], vec![7, 6], vec![4, 4], vec![2, 3, 4, 5], vec![]] {
                if m * fs.iter().product::<usize>() <= max_len {
                    out.push(Tree::RadixN(fs, Box::new(i.clone())));
                }
            }
        }
    }
    out.sort_by_key(|t| t.text());
    out.dedup();
    if let Some(k) = sample {
        let mut picked = vec![];
        for _ in 0..k.min(out.len()) {
            picked.push(out[rng.below(out.len() as u64) as usize].clone());
        }
        return picked;
    }
    out
}

/// trees that violate a documented precondition (the constructor must panic, and the model must say so too)
pub fn outside_preconditions(rng: &mut Rng, count: usize) -> Vec<Tree> {
    let lv = leaves();
    let mut out = vec![];
    while out.len() < count {
        let a = lv[rng.below(lv.len() as u64) as usize].clone();
        let b = lv[rng.below(lv.len() as u64) as usize].clone();
        match rng.below(4) {
            0 => {
                if gcd(a.len(), b.len()) != 1 {
                    out.push(Tree::GoodThomas(Box::new(a), Box::new(b)));
                }
            }
            1 => {
                if !is_prime_u64(a.len() as u64 + 1) {
                    out.push(Tree::Raders(Box::new(a)));
                }
            }
            2 => {
                let n = a.len() / 2 + 1 + rng.below(3) as usize;
                if 2 * n - 1 > a.len() {
                    out.push(Tree::Bluesteins(n, Box::new(a)));
                }
            }
            _ => {
                // *Small over an inner that needs out-of-place scratch or much in-place scratch
                let inner = Tree::Bluesteins(2, Box::new(Tree::Bfly(4)));
                out.push(Tree::MixedRadixSmall(Box::new(inner), Box::new(b)));
            }
        }
    }
    out
}

/// every wrapper constructor over every family of inner transform with "awkward" scratch needs (in-place scratch larger
/// than its length, non-zero out-of-place scratch, scratch-free, naive), within the documented preconditions
pub fn stress_pairs() -> Vec<Tree> {
    let b = |t: Tree| Box::new(t);
    // inner families: (tree, note)
    let mut inners: Vec<Tree> = vec![
        Tree::Bfly(4), Tree::Bfly(6), Tree::Bfly(16), Tree::Dft(4), Tree::Dft(6), Tree::Dft(10),
        Tree::Bluesteins(2, b(Tree::Bfly(4))),                       // len 2, in-place scratch 4
        Tree::Bluesteins(4, b(Tree::Bfly(8))),                       // len 4, scratch 8
        Tree::Bluesteins(6, b(Tree::Bfly(12))),                      // len 6
        Tree::Bluesteins(10, b(Tree::Dft(20))),                      // len 10, scratch 40
        Tree::Bluesteins(12, b(Tree::Radix4(1, b(Tree::Bfly(6))))),  // len 12
        Tree::Bluesteins(16, b(Tree::Bfly(32))),                     // len 16
        Tree::Raders(b(Tree::Bfly(4))),                              // len 5
        Tree::Raders(b(Tree::Dft(6))),                               // len 7, inner needs scratch 6
        Tree::Raders(b(Tree::Bluesteins(4, b(Tree::Bfly(8))))),      // len 5, inner needs more than its length
        Tree::Raders(b(Tree::Bluesteins(6, b(Tree::Bfly(12))))),     // len 7
        Tree::Raders(b(Tree::Bluesteins(10, b(Tree::Dft(20))))),     // len 11
        Tree::Raders(b(Tree::Bluesteins(12, b(Tree::Bfly(24))))),    // len 13
        Tree::Raders(b(Tree::Bluesteins(16, b(Tree::Bfly(32))))),    // len 17
        Tree::MixedRadix(b(Tree::Bluesteins(2, b(Tree::Bfly(4)))), b(Tree::Bfly(3))),
        Tree::MixedRadix(b(Tree::Bfly(3)), b(Tree::Bluesteins(4, b(Tree::Bfly(8))))),
        Tree::GoodThomas(b(Tree::Bluesteins(4, b(Tree::Bfly(8)))), b(Tree::Bfly(3))),
        Tree::GoodThomas(b(Tree::Bfly(5)), b(Tree::Bluesteins(6, b(Tree::Bfly(12))))),
        Tree::Radix4(1, b(Tree::Dft(3))),
        Tree::Radix3(1, b(Tree::Bluesteins(2, b(Tree::Bfly(4))))),
        Tree::RadixN(vec![2, 3], b(Tree::Bluesteins(2, b(Tree::Bfly(4))))),
        // inner transforms whose in-place scratch is EXACTLY len + 1 (the boundary of "needs more than the lent buffer")
        Tree::Bluesteins(2, b(Tree::Bfly(3))),                                                     // len 2, scratch 3
        Tree::Bluesteins(4, b(Tree::Dft(7))),                                                      // len 4, scratch 14 (inner Dft needs its length)
        Tree::MixedRadix(b(Tree::Bluesteins(1, b(Tree::Bfly(1)))), b(Tree::Bfly(4))),              // len 4, scratch 5
        Tree::MixedRadix(b(Tree::Bluesteins(1, b(Tree::Bfly(1)))), b(Tree::Bfly(6))),              // len 6, scratch 7
        // … exactly len, and len + 2
        Tree::Dft(4), Tree::Bluesteins(3, b(Tree::Bfly(5))),
    ];
    let mut out = vec![];
    for i in inners.clone() {
        let m = i.len();
        // Bluestein over it, for every admissible outer length class
        for n in [1usize, 2, (m + 1) / 2] {
            if n >= 1 && 2 * n - 1 <= m {
                out.push(Tree::Bluesteins(n, b(i.clone())));
            }
        }
        if is_prime_u64(m as u64 + 1) {
            out.push(Tree::Raders(b(i.clone())));
        }
        out.push(Tree::Radix4(1, b(i.clone())));
        out.push(Tree::Radix4(0, b(i.clone())));
        out.push(Tree::Radix3(1, b(i.clone())));
        out.push(Tree::RadixN(vec![2], b(i.clone())));
        out.push(Tree::RadixN(vec![5, 3], b(i.clone())));
        for other in [Tree::Bfly(3), Tree::Bfly(8), Tree::Dft(5), Tree::Bluesteins(2, b(Tree::Bfly(4)))] {
            out.push(Tree::MixedRadix(b(i.clone()), b(other.clone())));
            out.push(Tree::MixedRadix(b(other.clone()), b(i.clone())));
            if gcd(m, other.len()) == 1 {
                out.push(Tree::GoodThomas(b(i.clone()), b(other.clone())));
                out.push(Tree::GoodThomas(b(other.clone()), b(i.clone())));
            }
        }
    }
    inners.append(&mut out);
    inners.sort_by_key(|t| t.text());
    inners.dedup();
    inners
}

pub fn tree_set(seed: u64, n_d1: usize, n_d2: usize, n_deep: usize, n_bad: usize) -> Vec<Tree> {
    let mut rng = Rng::new(seed);
    let lv = leaves();
    let all1 = depth1(&lv, 1100, &mut rng, None);
    let mut out: Vec<Tree> = vec![];
    // depth 1: a deterministic stride through the exhaustive list plus random picks
    let stride = (all1.len() / n_d1.max(1)).max(1);
    out.extend(all1.iter().step_by(stride).cloned());
    // depth 2: children drawn from depth-1 trees and leaves
    let mut pool: Vec<Tree> = lv.clone();
    for _ in 0..60 {
        pool.push(all1[rng.below(all1.len() as u64) as usize].clone());
    }
    out.extend(depth1(&pool, 2000, &mut rng, Some(n_d2)));
    // deeper: iterate
    let mut pool2 = pool.clone();
    pool2.extend(depth1(&pool, 400, &mut rng, Some(40)));
    let d3 = depth1(&pool2, 6000, &mut rng, Some(n_deep));
    let mut pool3 = lv.clone();
    pool3.extend(d3.iter().take(30).cloned());
    out.extend(d3);
    out.extend(depth1(&pool3, 20000, &mut rng, Some(n_deep / 2)));
    out.extend(stress_pairs());
    out.extend(outside_preconditions(&mut rng, n_bad));
    out
}

/// K4 on constructor trees
pub fn k4t(args: &[String]) {
    let n_d1: usize = args[0].parse().unwrap();
    let n_d2: usize = args[1].parse().unwrap();
    let n_deep: usize = args[2].parse().unwrap();
    let n_bad: usize = args[3].parse().unwrap();
    let seed = seed_from_env() ^ 0x1212;
    let trees = tree_set(seed, n_d1, n_d2, n_deep, n_bad);
    let lines: Vec<String> = trees
        .par_iter()
        .enumerate()
        .filter_map(|(i, t)| {
            let dir = if i % 2 == 0 { FftDirection::Forward } else { FftDirection::Inverse };
            case_line(t, dir, seed ^ i as u64, 12, || t.build::<Fp>(dir))
        })
        .collect();
    let stdout = std::io::stdout();
    let mut out = std::io::BufWriter::new(stdout.lock());
    for l in lines {
        writeln!(out, "{}", l).unwrap();
    }
}

fn s12_one<T: Real>(t: &Tree, dir: FftDirection, rng: &mut Rng, rep: &mut Report, marker: &Marker) {
    let tag = format!("{}/{}/{}", T::NAME, crate::planners::dir_name(dir), t.text());
    let n = t.len();
    rep.evaluations += 1;
    marker.start(&tag);
    let built = catch(|| t.build::<T>(dir));
    let fft: Arc<dyn Fft<T>> = match built {
        Ok(f) => f,
        Err(e) => {
            marker.end(&tag);
            if e.contains("should only be used with algorithms that require") {
                // the generator does not track inner scratch needs: this tree is outside the *Small variants' documented
                // precondition, the constructor is right to refuse it (K4-trees compares exactly this against Recipe.spec)
                rep.count("outside-Small-precondition(skipped)");
            } else {
                rep.fail(format!("ctor-panic {}", tag), e);
            }
            return;
        }
    };
    if fft.len() != n || fft.fft_direction() != dir {
        rep.fail(format!("len-dir {}", tag), format!("{} {:?}", fft.len(), fft.fft_direction()));
    }
    if t.depth() >= 1 {
        rep.nontrivial += 1;
    }
    let mut kinds = vec![];
    t.kinds(&mut kinds);
    rep.count(kinds[0]);
    let advs = [fft.get_inplace_scratch_len(), fft.get_outofplace_scratch_len(), fft.get_immutable_scratch_len()];
    let chunks = 1 + rng.below(3) as usize;
    let x: Vec<(f64, f64)> = (0..n * chunks).map(|_| ((rng.normal() as f32) as f64, (rng.normal() as f32) as f64)).collect();
    let reference: Vec<(f64, f64)> = x.chunks(n.max(1)).flat_map(|c| ref_dft(c, dir == FftDirection::Inverse)).collect();
    let data: Vec<Complex<T>> = x.iter().map(|&(a, b)| cx(a, b)).collect();
    let tol = bound(T::EPS, n) + 4.0 * f64::EPSILON;
    for entry in 0..3usize {
        let flush = if rng.below(2) == 0 { Flush::End } else { Flush::Start };
        let mut a = GuardBuf::new(&data, flush);
        let mut b = GuardBuf::new(&nans::<T>(data.len()), flush);
        let mut s = GuardBuf::new(&nans::<T>(advs[entry]), flush);
        let r = catch(|| match entry {
            0 => fft.process_with_scratch(a.slice_mut(), s.slice_mut()),
            1 => fft.process_outofplace_with_scratch(a.slice_mut(), b.slice_mut(), s.slice_mut()),
            _ => fft.process_immutable_with_scratch(a.slice(), b.slice_mut(), s.slice_mut()),
        });
        match r {
            Err(e) => rep.fail(format!("wellshaped-panicked {} {}", tag, crate::s07::ENTRY_NAMES[entry]), e),
            Ok(()) => {
                let out = if entry == 0 { a.slice() } else { b.slice() };
                let mut num = 0.0;
                let mut den = 0.0;
                for (o, r) in out.iter().zip(&reference) {
                    num += (o.re.to() - r.0).powi(2) + (o.im.to() - r.1).powi(2);
                    den += r.0 * r.0 + r.1 * r.1;
                }
                let e = if !num.is_finite() { f64::INFINITY } else if den == 0.0 { num } else { (num / den).sqrt() };
                if !(e <= tol) {
                    rep.fail(format!("wrong-output {} {}", tag, crate::s07::ENTRY_NAMES[entry]), format!("relative L2 error {:e} > {:e} ({} chunks, NaN-filled exact scratch)", e, tol, chunks));
                }
                if entry == 2 && !same_bits(a.slice(), &data) {
                    rep.fail(format!("input-modified {}", tag), "immutable entry changed its input".into());
                }
            }
        }
        // ill-shaped: remainder, short scratch, unequal lengths
        if n >= 2 {
            let bad = catch(|| {
                let mut a = vec![cx::<T>(0.0, 0.0); n * chunks + 1];
                let mut b = vec![cx::<T>(0.0, 0.0); n * chunks + 1];
                let mut s = vec![cx::<T>(0.0, 0.0); advs[entry]];
                match entry {
                    0 => fft.process_with_scratch(&mut a, &mut s),
                    1 => fft.process_outofplace_with_scratch(&mut a, &mut b, &mut s),
                    _ => fft.process_immutable_with_scratch(&a, &mut b, &mut s),
                }
            });
            if bad.is_ok() {
                rep.fail(format!("illshaped-returned {} {} remainder", tag, crate::s07::ENTRY_NAMES[entry]), "data length kn+1 accepted".into());
            }
            if advs[entry] > 0 {
                let bad = catch(|| {
                    let mut a = vec![cx::<T>(0.0, 0.0); n];
                    let mut b = vec![cx::<T>(0.0, 0.0); n];
                    let mut s = vec![cx::<T>(0.0, 0.0); advs[entry] - 1];
                    match entry {
                        0 => fft.process_with_scratch(&mut a, &mut s),
                        1 => fft.process_outofplace_with_scratch(&mut a, &mut b, &mut s),
                        _ => fft.process_immutable_with_scratch(&a, &mut b, &mut s),
                    }
                });
                if bad.is_ok() {
                    rep.fail(format!("illshaped-returned {} {} short-scratch", tag, crate::s07::ENTRY_NAMES[entry]), "scratch of advertised-1 accepted".into());
                }
            }
        }
    }
    marker.end(&tag);
}

/// S12: the same trees in f32/f64, guard-paged buffers, NaN-filled exact scratch, 1-3 chunks, vs the reference
pub fn s12(args: &[String]) {
    let n_d1: usize = args[0].parse().unwrap();
    let n_d2: usize = args[1].parse().unwrap();
    let n_deep: usize = args[2].parse().unwrap();
    let seed = seed_from_env() ^ 0x1212;
    let mut trees = tree_set(seed, n_d1, n_d2, n_deep, 0);
    // planner-produced transforms as inners of portable wrappers are exercised through their trees' texts:
    for n in [36usize, 100, 210, 1009] {
        if let Some(t) = Tree::parse(&rustfft::FftPlannerScalar::<f64>::new().verif_recipe(n)) {
            trees.push(Tree::Bluesteins(n / 2, Box::new(t.clone())));
            trees.push(Tree::MixedRadix(Box::new(t), Box::new(Tree::Bfly(3))));
        }
    }
    if let Ok(sh) = std::env::var("VERIF_SHARD") {
        let mut it = sh.split('/');
        let i: usize = it.next().unwrap().parse().unwrap();
        let m: usize = it.next().unwrap().parse().unwrap();
        trees = trees.into_iter().enumerate().filter(|(j, _)| j % m == i).map(|(_, t)| t).collect();
    }
    let marker = Marker::new();
    let shared = Shared::new();
    trees.par_iter().enumerate().for_each(|(i, t)| {
        let mut rep = Report::default();
        let mut rng = Rng::new(seed ^ (i as u64) * 7);
        let dir = if i % 2 == 0 { FftDirection::Forward } else { FftDirection::Inverse };
        if t.len() >= 1 {
            s12_one::<f32>(t, dir, &mut rng, &mut rep, &marker);
            s12_one::<f64>(t, dir, &mut rng, &mut rep, &marker);
        }
        if i % 400 == 7 {
            rep.sample(t.text());
        }
        shared.merge(rep);
    });
    shared.into_inner().print("S12-constructor-trees", "one case per (tree, type): built through the public constructors, 3 entry points, guard-paged buffers, NaN-filled scratch of exactly the advertised length, 1-3 chunks, vs double-double reference, plus remainder / short-scratch calls; non-trivial = depth >= 1; hist = root constructor");
}
