//! search for C09 on the real code: well-shaped calls never panic, ill-shaped calls always panic.
use crate::planners::*;
use crate::real::*;
use crate::report::*;
use crate::util::*;
use rayon::prelude::*;
use rustfft::{Fft, FftDirection};
use std::sync::Arc;

/// the call shapes of the property's quantifier for one instance
fn shapes<T: Real>(fft: &Arc<dyn Fft<T>>, tag: &str, n: usize, rep: &mut Report) {
    let mut data_lens: Vec<usize> = vec![1, n + 1, 2 * n + 1, 3 * n + 1, n, 2 * n, 3 * n];
    if n >= 1 {
        data_lens.push(n - 1);
        data_lens.push(2 * n - 1);
        data_lens.push(3 * n - 1);
    }
    data_lens.sort();
    data_lens.dedup();
    let multiple = |d: usize| if n == 0 { d == 0 } else { d % n == 0 };
    let advs = [fft.get_inplace_scratch_len(), fft.get_outofplace_scratch_len(), fft.get_immutable_scratch_len()];
    for &d in &data_lens {
        if d == 0 {
            continue;
        }
        // process(): allocates its own scratch
        rep.evaluations += 1;
        let r = catch(|| {
            let mut b = zeros::<T>(d);
            fft.process(&mut b);
        });
        judge(rep, tag, "process", d, d, usize::MAX, multiple(d), &r);
        for entry in 0..3usize {
            let adv = advs[entry];
            let mut scr: Vec<usize> = vec![0, adv, adv + 1];
            if adv >= 1 {
                scr.push(adv - 1);
            }
            scr.sort();
            scr.dedup();
            let outs: Vec<usize> = if entry == 0 { vec![d] } else { vec![d, d + 1, d + n, d.saturating_sub(1)] };
            for &o in &outs {
                if entry != 0 && o == 0 {
                    continue;
                }
                for &s in &scr {
                    // only vary one defect at a time beyond the first few shapes, to keep the count linear
                    if o != d && s != adv {
                        continue;
                    }
                    rep.evaluations += 1;
                    let well = multiple(d) && o == d && s >= adv;
                    let r = catch(|| {
                        let mut a = zeros::<T>(d);
                        let mut b = zeros::<T>(o);
                        let mut sc = zeros::<T>(s);
                        match entry {
                            0 => fft.process_with_scratch(&mut a, &mut sc),
                            1 => fft.process_outofplace_with_scratch(&mut a, &mut b, &mut sc),
                            _ => fft.process_immutable_with_scratch(&a, &mut b, &mut sc),
                        }
                    });
                    let name = ["process_with_scratch", "process_outofplace_with_scratch", "process_immutable_with_scratch"][entry];
                    judge(rep, tag, name, d, o, if s == adv { 0 } else if s > adv { 1 } else if s == 0 { 3 } else { 2 }, well, &r);
                }
            }
        }
    }
}

/// an EMPTY input with a non-empty output: the lengths differ, so the two-buffer entry points must panic (n >= 1)
fn empty_input<T: Real>(fft: &Arc<dyn Fft<T>>, tag: &str, n: usize, rep: &mut Report) {
    if n == 0 {
        return;
    }
    let advs = [fft.get_inplace_scratch_len(), fft.get_outofplace_scratch_len(), fft.get_immutable_scratch_len()];
    for entry in 1..3usize {
        for o in [1usize, n] {
            rep.evaluations += 1;
            let r = catch(|| {
                let mut a = zeros::<T>(0);
                let mut b = zeros::<T>(o);
                let mut sc = zeros::<T>(advs[entry]);
                match entry {
                    1 => fft.process_outofplace_with_scratch(&mut a, &mut b, &mut sc),
                    _ => fft.process_immutable_with_scratch(&a, &mut b, &mut sc),
                }
            });
            let name = ["process_with_scratch", "process_outofplace_with_scratch", "process_immutable_with_scratch"][entry];
            judge(rep, tag, name, 0, o, 0, false, &r);
        }
    }
}

fn judge(rep: &mut Report, tag: &str, entry: &str, d: usize, o: usize, sclass: usize, well: bool, outcome: &Result<(), String>) {
    let panicked = outcome.is_err();
    let sname = match sclass {
        0 => "scratch=adv",
        1 => "scratch=adv+1",
        2 => "scratch=adv-1",
        3 => "scratch=0",
        _ => "scratch=own",
    };
    if well {
        rep.count("well-shaped");
        if panicked {
            rep.fail(format!("wellshaped-panicked {} {} data={} out={} {}", tag, entry, d, o, sname), "a well-shaped call panicked".into());
        }
    } else {
        rep.count("ill-shaped");
        if !panicked {
            rep.fail(format!("illshaped-returned {} {} data={} out={} {}", tag, entry, d, o, sname), "an ill-shaped call returned normally".into());
        } else if let Err(m) = outcome {
            if !is_validation_panic(m) {
                rep.fail(format!("illshaped-kernel-panic {} {} data={} out={} {}", tag, entry, d, o, sname), format!("the panic did not come from call-shape validation: {}", m.chars().take(140).collect::<String>()));
            }
        }
    }
}

fn one<T: Real>(kind: Kind, n: usize, dir: FftDirection, rep: &mut Report) {
    let tag = format!("{}/{}/n={}/{}", kind.name(), T::NAME, n, dir_name(dir));
    match catch(|| AnyPlanner::<T>::new(kind).expect("planner unavailable").plan(n, dir)) {
        Err(e) => rep.fail(format!("plan-panic {}", tag), e),
        Ok(fft) => {
            if n >= 2 {
                rep.nontrivial += 1;
            }
            shapes(&fft, &tag, n, rep);
            empty_input(&fft, &tag, n, rep)
        }
    }
}

pub fn run(args: &[String]) {
    let hi: usize = args[0].parse().unwrap();
    let nrand: usize = args[1].parse().unwrap();
    let maxn: usize = args[2].parse().unwrap();
    let mut rng = Rng::new(seed_from_env() ^ 0x99);
    let mut ns: Vec<usize> = (0..hi).collect();
    for _ in 0..nrand {
        ns.push(hi + rng.below((maxn - hi) as u64) as usize);
    }
    let shared = Shared::new();
    ns.par_iter().for_each(|&n| {
        let mut rep = Report::default();
        for kind in avail() {
            let dir = if n % 2 == 0 { FftDirection::Forward } else { FftDirection::Inverse };
            one::<f32>(kind, n, dir, &mut rep);
            one::<f64>(kind, n, dir, &mut rep);
        }
        if n == 7 || n == 360 {
            rep.sample(format!("n={}: data lens {{1,n-1,n,n+1,2n-1,2n,2n+1,3n-1,3n,3n+1}} x out {{=,+1,+n,-1}} x scratch {{0,adv-1,adv,adv+1}} x 4 entry points x 4 planners x f32/f64", n));
        }
        shared.merge(rep);
    });
    let rep = shared.into_inner();
    rep.print("S09-shapes", "one case per (planner, type, n, entry point, data len, output len, scratch class); expectation from the property statement; non-trivial instances = n >= 2");
}
