//! Trees of algorithm constructors in the canonical text of `Recipe::verif_text` / the Lean `Recipe.text`
use rustfft::algorithm::butterflies::*;
use rustfft::algorithm::*;
use rustfft::{Fft, FftDirection, FftNum};
use std::sync::Arc;

#[derive(Clone, Debug, PartialEq)]
pub enum Tree {
    Dft(usize),
    Bfly(usize),
    MixedRadix(Box<Tree>, Box<Tree>),
    MixedRadixSmall(Box<Tree>, Box<Tree>),
    GoodThomas(Box<Tree>, Box<Tree>),
    GoodThomasSmall(Box<Tree>, Box<Tree>),
    Raders(Box<Tree>),
    Bluesteins(usize, Box<Tree>),
    RadixN(Vec<usize>, Box<Tree>),
    Radix4(usize, Box<Tree>),
    Radix3(usize, Box<Tree>),
}

fn gcd(a: u64, b: u64) -> u64 {
    if b == 0 {
        a
    } else {
        gcd(b, a % b)
    }
}
pub fn lcm(a: u64, b: u64) -> u64 {
    if a == 0 || b == 0 {
        return a.max(b).max(1);
    }
    a / gcd(a, b) * b
}

impl Tree {
    pub fn len(&self) -> usize {
        match self {
            Tree::Dft(n) | Tree::Bfly(n) => *n,
            Tree::MixedRadix(l, r) | Tree::MixedRadixSmall(l, r) | Tree::GoodThomas(l, r) | Tree::GoodThomasSmall(l, r) => l.len() * r.len(),
            Tree::Raders(i) => i.len() + 1,
            Tree::Bluesteins(n, _) => *n,
            Tree::RadixN(fs, b) => b.len() * fs.iter().product::<usize>(),
            Tree::Radix4(k, b) => b.len() << (2 * k),
            Tree::Radix3(k, b) => b.len() * 3usize.pow(*k as u32),
        }
    }
    pub fn text(&self) -> String {
        match self {
            Tree::Dft(n) => format!("(Dft {})", n),
            Tree::Bfly(n) => format!("(Butterfly {})", n),
            Tree::MixedRadix(l, r) => format!("(MixedRadix {} {})", l.text(), r.text()),
            Tree::MixedRadixSmall(l, r) => format!("(MixedRadixSmall {} {})", l.text(), r.text()),
            Tree::GoodThomas(l, r) => format!("(GoodThomas {} {})", l.text(), r.text()),
            Tree::GoodThomasSmall(l, r) => format!("(GoodThomasSmall {} {})", l.text(), r.text()),
            Tree::Raders(i) => format!("(Raders {})", i.text()),
            Tree::Bluesteins(n, i) => format!("(Bluesteins {} {})", n, i.text()),
            Tree::RadixN(fs, b) => format!("(RadixN [{}] {})", fs.iter().map(|f| f.to_string()).collect::<Vec<_>>().join(" "), b.text()),
            Tree::Radix4(k, b) => format!("(Radix4 {} {})", k, b.text()),
            Tree::Radix3(k, b) => format!("(Radix3 {} {})", k, b.text()),
        }
    }
    /// lcm of 8 and every twiddle modulus the tree uses
    pub fn grid(&self) -> u64 {
        let own = self.len().max(1) as u64;
        match self {
            Tree::Dft(_) | Tree::Bfly(_) => lcm(8, own),
            Tree::MixedRadix(l, r) | Tree::MixedRadixSmall(l, r) | Tree::GoodThomas(l, r) | Tree::GoodThomasSmall(l, r) => {
                lcm(lcm(8, own), lcm(l.grid(), r.grid()))
            }
            Tree::Raders(i) => lcm(lcm(8, own), i.grid()),
            Tree::Bluesteins(n, i) => lcm(lcm(8, 2 * (*n).max(1) as u64), i.grid()),
            Tree::RadixN(_, b) | Tree::Radix4(_, b) => lcm(lcm(8, own), b.grid()),
            // Radix3 always constructs a Butterfly3 (its constants are decoded even when k = 0 and it is never used)
            Tree::Radix3(_, b) => lcm(lcm(24, own), b.grid()),
        }
    }
    pub fn depth(&self) -> usize {
        match self {
            Tree::Dft(_) | Tree::Bfly(_) => 0,
            Tree::MixedRadix(l, r) | Tree::MixedRadixSmall(l, r) | Tree::GoodThomas(l, r) | Tree::GoodThomasSmall(l, r) => 1 + l.depth().max(r.depth()),
            Tree::Raders(i) | Tree::Bluesteins(_, i) | Tree::RadixN(_, i) | Tree::Radix4(_, i) | Tree::Radix3(_, i) => 1 + i.depth(),
        }
    }
    pub fn kinds(&self, out: &mut Vec<&'static str>) {
        match self {
            Tree::Dft(_) => out.push("Dft"),
            Tree::Bfly(_) => out.push("Butterfly"),
            Tree::MixedRadix(l, r) => {
                out.push("MixedRadix");
                l.kinds(out);
                r.kinds(out)
            }
            Tree::MixedRadixSmall(l, r) => {
                out.push("MixedRadixSmall");
                l.kinds(out);
                r.kinds(out)
            }
            Tree::GoodThomas(l, r) => {
                out.push("GoodThomas");
                l.kinds(out);
                r.kinds(out)
            }
            Tree::GoodThomasSmall(l, r) => {
                out.push("GoodThomasSmall");
                l.kinds(out);
                r.kinds(out)
            }
            Tree::Raders(i) => {
                out.push("Raders");
                i.kinds(out)
            }
            Tree::Bluesteins(_, i) => {
                out.push("Bluesteins");
                i.kinds(out)
            }
            Tree::RadixN(_, i) => {
                out.push("RadixN");
                i.kinds(out)
            }
            Tree::Radix4(_, i) => {
                out.push("Radix4");
                i.kinds(out)
            }
            Tree::Radix3(_, i) => {
                out.push("Radix3");
                i.kinds(out)
            }
        }
    }

    /// build through the *public* constructors (RadixN through the hook, it is crate-private)
    pub fn build<T: FftNum>(&self, dir: FftDirection) -> Arc<dyn Fft<T>> {
        match self {
            Tree::Dft(n) => Arc::new(Dft::new(*n, dir)),
            Tree::Bfly(n) => build_butterfly(*n, dir),
            Tree::MixedRadix(l, r) => Arc::new(MixedRadix::new(l.build(dir), r.build(dir))),
            Tree::MixedRadixSmall(l, r) => Arc::new(MixedRadixSmall::new(l.build(dir), r.build(dir))),
            Tree::GoodThomas(l, r) => Arc::new(GoodThomasAlgorithm::new(l.build(dir), r.build(dir))),
            Tree::GoodThomasSmall(l, r) => Arc::new(GoodThomasAlgorithmSmall::new(l.build(dir), r.build(dir))),
            Tree::Raders(i) => Arc::new(RadersAlgorithm::new(i.build(dir))),
            Tree::Bluesteins(n, i) => Arc::new(BluesteinsAlgorithm::new(*n, i.build(dir))),
            Tree::RadixN(fs, b) => rustfft::verif_hooks::new_radixn(fs, b.build(dir)),
            Tree::Radix4(k, b) => Arc::new(Radix4::new_with_base(*k as u32, b.build(dir))),
            Tree::Radix3(k, b) => Arc::new(Radix3::new_with_base(*k as u32, b.build(dir))),
        }
    }

    pub fn parse(s: &str) -> Option<Tree> {
        let toks = tokenize(s);
        let mut i = 0;
        let t = parse_tree(&toks, &mut i)?;
        if i == toks.len() {
            Some(t)
        } else {
            None
        }
    }
}

pub const BUTTERFLY_LENS: [usize; 21] = [1, 2, 3, 4, 5, 6, 7, 8, 9, 11, 12, 13, 16, 17, 19, 23, 24, 27, 29, 31, 32];

pub fn build_butterfly<T: FftNum>(n: usize, dir: FftDirection) -> Arc<dyn Fft<T>> {
    match n {
        1 => Arc::new(Butterfly1::new(dir)),
        2 => Arc::new(Butterfly2::new(dir)),
        3 => Arc::new(Butterfly3::new(dir)),
        4 => Arc::new(Butterfly4::new(dir)),
        5 => Arc::new(Butterfly5::new(dir)),
        6 => Arc::new(Butterfly6::new(dir)),
        7 => Arc::new(Butterfly7::new(dir)),
        8 => Arc::new(Butterfly8::new(dir)),
        9 => Arc::new(Butterfly9::new(dir)),
        11 => Arc::new(Butterfly11::new(dir)),
        12 => Arc::new(Butterfly12::new(dir)),
        13 => Arc::new(Butterfly13::new(dir)),
        16 => Arc::new(Butterfly16::new(dir)),
        17 => Arc::new(Butterfly17::new(dir)),
        19 => Arc::new(Butterfly19::new(dir)),
        23 => Arc::new(Butterfly23::new(dir)),
        24 => Arc::new(Butterfly24::new(dir)),
        27 => Arc::new(Butterfly27::new(dir)),
        29 => Arc::new(Butterfly29::new(dir)),
        31 => Arc::new(Butterfly31::new(dir)),
        32 => Arc::new(Butterfly32::new(dir)),
        _ => panic!("no butterfly of length {}", n),
    }
}

fn tokenize(s: &str) -> Vec<String> {
    let mut out = vec![];
    let mut cur = String::new();
    for ch in s.chars() {
        match ch {
            '(' | ')' | '[' | ']' => {
                if !cur.is_empty() {
                    out.push(std::mem::take(&mut cur));
                }
                out.push(ch.to_string());
            }
            ' ' => {
                if !cur.is_empty() {
                    out.push(std::mem::take(&mut cur));
                }
            }
            c => cur.push(c),
        }
    }
    if !cur.is_empty() {
        out.push(cur);
    }
    out
}

fn parse_tree(t: &[String], i: &mut usize) -> Option<Tree> {
    if t.get(*i)? != "(" {
        return None;
    }
    *i += 1;
    let name = t.get(*i)?.clone();
    *i += 1;
    let num = |i: &mut usize| -> Option<usize> {
        let v = t.get(*i)?.parse().ok()?;
        *i += 1;
        Some(v)
    };
    let r = match name.as_str() {
        "Dft" => Tree::Dft(num(i)?),
        "Butterfly" => Tree::Bfly(num(i)?),
        "MixedRadix" => Tree::MixedRadix(Box::new(parse_tree(t, i)?), Box::new(parse_tree(t, i)?)),
        "MixedRadixSmall" => Tree::MixedRadixSmall(Box::new(parse_tree(t, i)?), Box::new(parse_tree(t, i)?)),
        "GoodThomas" => Tree::GoodThomas(Box::new(parse_tree(t, i)?), Box::new(parse_tree(t, i)?)),
        "GoodThomasSmall" => Tree::GoodThomasSmall(Box::new(parse_tree(t, i)?), Box::new(parse_tree(t, i)?)),
        "Raders" => Tree::Raders(Box::new(parse_tree(t, i)?)),
        "Bluesteins" => {
            let n = num(i)?;
            Tree::Bluesteins(n, Box::new(parse_tree(t, i)?))
        }
        "RadixN" => {
            if t.get(*i)? != "[" {
                return None;
            }
            *i += 1;
            let mut fs = vec![];
            while t.get(*i)? != "]" {
                fs.push(num(i)?);
            }
            *i += 1;
            Tree::RadixN(fs, Box::new(parse_tree(t, i)?))
        }
        "Radix4" => {
            let k = num(i)?;
            Tree::Radix4(k, Box::new(parse_tree(t, i)?))
        }
        "Radix3" => {
            let k = num(i)?;
            Tree::Radix3(k, Box::new(parse_tree(t, i)?))
        }
        _ => return None,
    };
    if t.get(*i)? != ")" {
        return None;
    }
    *i += 1;
    Some(r)
}
