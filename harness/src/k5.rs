//! K5: the real `fft_helper_*` (hook H3) driven with logging closures, exhaustively over small length tuples.
//! Each line: `helper <kind> <in> <out> <scratch> <chunk> <required>` -> `<ret|panic:kind> [off+len ...]`
use crate::util::*;
use rustfft::verif_hooks as vh;
use std::cell::RefCell;
use std::io::Write;

pub fn panic_kind(msg: &str) -> String {
    if msg.contains("too small") {
        "too-small".into()
    } else if msg.contains("must be a multiple") {
        "not-multiple".into()
    } else if msg.contains("Not enough scratch") {
        "scratch".into()
    } else if msg.contains("must have the same length") {
        "in-out".into()
    } else {
        format!("other({})", msg.chars().take(40).collect::<String>())
    }
}

fn calls_text(c: &[(usize, usize)]) -> String {
    let v: Vec<String> = c.iter().map(|(o, l)| format!("{}+{}", o, l)).collect();
    format!("[{}]", v.join(" "))
}

pub fn run_case(kind: &str, a: usize, b: usize, c: usize, d: usize, e: usize) -> String {
    let mut buf1 = vec![0u32; a];
    let mut buf2 = vec![0u32; b];
    let mut scratch = vec![0u32; c];
    let base1 = buf1.as_ptr() as usize;
    let base2 = buf2.as_ptr() as usize;
    let sbase = scratch.as_ptr() as usize;
    let calls: RefCell<Vec<(usize, usize)>> = RefCell::new(vec![]);
    let bad: RefCell<Option<String>> = RefCell::new(None);
    let r = catch(|| match kind {
        "inplace" => vh::fft_helper_inplace(&mut buf1, &mut scratch, d, e, |ch, s| {
            calls.borrow_mut().push(((ch.as_ptr() as usize - base1) / 4, ch.len()));
            if s.len() != e || (s.len() > 0 && s.as_ptr() as usize != sbase) {
                *bad.borrow_mut() = Some(format!("scratch slice len {} (required {})", s.len(), e));
            }
        }),
        "oop" => vh::fft_helper_outofplace(&mut buf1, &mut buf2, &mut scratch, d, e, |i, o, s| {
            calls.borrow_mut().push(((i.as_ptr() as usize - base1) / 4, i.len()));
            if (o.as_ptr() as usize - base2) != (i.as_ptr() as usize - base1) || o.len() != i.len() {
                *bad.borrow_mut() = Some("input/output chunks not aligned".into());
            }
            if s.len() != e || (s.len() > 0 && s.as_ptr() as usize != sbase) {
                *bad.borrow_mut() = Some(format!("scratch slice len {} (required {})", s.len(), e));
            }
        }),
        "immut" => vh::fft_helper_immut(&buf1, &mut buf2, &mut scratch, d, e, |i, o, s| {
            calls.borrow_mut().push(((i.as_ptr() as usize - base1) / 4, i.len()));
            if (o.as_ptr() as usize - base2) != (i.as_ptr() as usize - base1) || o.len() != i.len() {
                *bad.borrow_mut() = Some("input/output chunks not aligned".into());
            }
            if s.len() != e || (s.len() > 0 && s.as_ptr() as usize != sbase) {
                *bad.borrow_mut() = Some(format!("scratch slice len {} (required {})", s.len(), e));
            }
        }),
        "inplace2x" => vh::fft_helper_inplace_unroll2x(
            &mut buf1,
            d,
            |ch| calls.borrow_mut().push(((ch.as_ptr() as usize - base1) / 4, ch.len())),
            |ch| calls.borrow_mut().push(((ch.as_ptr() as usize - base1) / 4, ch.len())),
        ),
        "oop2x" => vh::fft_helper_outofplace_unroll2x(
            &mut buf1,
            &mut buf2,
            d,
            |i, o| {
                calls.borrow_mut().push(((i.as_ptr() as usize - base1) / 4, i.len()));
                if (o.as_ptr() as usize - base2) != (i.as_ptr() as usize - base1) || o.len() != i.len() {
                    *bad.borrow_mut() = Some("input/output chunks not aligned".into());
                }
            },
            |i, o| {
                calls.borrow_mut().push(((i.as_ptr() as usize - base1) / 4, i.len()));
                if (o.as_ptr() as usize - base2) != (i.as_ptr() as usize - base1) || o.len() != i.len() {
                    *bad.borrow_mut() = Some("input/output chunks not aligned".into());
                }
            },
        ),
        "immut2x" => vh::fft_helper_immut_unroll2x(
            &buf1,
            &mut buf2,
            d,
            |i, o| {
                calls.borrow_mut().push(((i.as_ptr() as usize - base1) / 4, i.len()));
                if (o.as_ptr() as usize - base2) != (i.as_ptr() as usize - base1) || o.len() != i.len() {
                    *bad.borrow_mut() = Some("input/output chunks not aligned".into());
                }
            },
            |i, o| {
                calls.borrow_mut().push(((i.as_ptr() as usize - base1) / 4, i.len()));
                if (o.as_ptr() as usize - base2) != (i.as_ptr() as usize - base1) || o.len() != i.len() {
                    *bad.borrow_mut() = Some("input/output chunks not aligned".into());
                }
            },
        ),
        _ => panic!("bad helper kind"),
    });
    let outcome = match r {
        Ok(()) => "ret".to_string(),
        Err(m) => format!("panic:{}", panic_kind(&m)),
    };
    if let Some(b) = bad.borrow().as_ref() {
        return format!("BAD {} {}", b, calls_text(&calls.borrow()));
    }
    format!("{} {}", outcome, calls_text(&calls.borrow()))
}

pub fn run(args: &[String]) {
    let maxbuf: usize = args[0].parse().unwrap();
    let maxchunk: usize = args[1].parse().unwrap();
    let stdout = std::io::stdout();
    let mut out = std::io::BufWriter::new(stdout.lock());
    for kind in ["inplace", "oop", "immut", "inplace2x", "oop2x", "immut2x"] {
        let two = kind.ends_with("2x");
        let zip = !kind.starts_with("inplace");
        for a in 0..=maxbuf {
            for d in 0..=maxchunk {
                let outs: Vec<usize> = if zip {
                    let mut v = vec![a, a + 1, a + d];
                    if a > 0 {
                        v.push(a - 1);
                    }
                    if a >= d && d > 0 {
                        v.push(a - d);
                    }
                    v.sort();
                    v.dedup();
                    v
                } else {
                    vec![0]
                };
                for b in outs {
                    if two {
                        writeln!(out, "helper {} {} {} 0 {} 0\t{}", kind, a, b, d, run_case(kind, a, b, 0, d, 0)).unwrap();
                    } else {
                        for c in 0..=4 {
                            for e in 0..=4 {
                                writeln!(out, "helper {} {} {} {} {} {}\t{}", kind, a, b, c, d, e, run_case(kind, a, b, c, d, e)).unwrap();
                            }
                        }
                    }
                }
            }
        }
    }
}
