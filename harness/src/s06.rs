//! search for C06 on the real code (oracle-free, so it reaches large n): forward∘inverse = n·x in both orders,
//! inverse(x) = conj(forward(conj x)), both orders of planning the two directions on one planner.
use crate::planners::*;
use crate::real::*;
use crate::report::*;
use crate::snum::bound;
use crate::util::*;
use rayon::prelude::*;
use rustfft::num_complex::Complex;
use rustfft::FftDirection;

fn rel<T: Real>(a: &[Complex<T>], b: impl Fn(usize) -> (f64, f64)) -> f64 {
    let mut num = 0.0;
    let mut den = 0.0;
    for (i, x) in a.iter().enumerate() {
        let (r, im) = b(i);
        num += (x.re.to() - r).powi(2) + (x.im.to() - im).powi(2);
        den += r * r + im * im;
    }
    if !num.is_finite() {
        return f64::INFINITY;
    }
    if den == 0.0 {
        return if num == 0.0 { 0.0 } else { f64::INFINITY };
    }
    (num / den).sqrt()
}

fn one<T: Real>(kind: Kind, n: usize, rng: &mut Rng, rep: &mut Report) {
    let fwd_first = rng.below(2) == 0;
    let tag = format!("{}/{}/n={}/{}", kind.name(), T::NAME, n, if fwd_first { "plan-fwd-first" } else { "plan-inv-first" });
    rep.evaluations += 1;
    let r = catch(|| {
        let mut p = AnyPlanner::<T>::new(kind).expect("planner unavailable");
        let (f, i) = if fwd_first {
            let f = p.plan(n, FftDirection::Forward);
            let i = p.plan(n, FftDirection::Inverse);
            (f, i)
        } else {
            let i = p.plan(n, FftDirection::Inverse);
            let f = p.plan(n, FftDirection::Forward);
            (f, i)
        };
        assert!(f.fft_direction() == FftDirection::Forward && i.fft_direction() == FftDirection::Inverse, "direction mix-up");
        let x: Vec<Complex<T>> = random_vec(rng, n);
        let mut y = x.clone();
        f.process(&mut y);
        let mut z = y.clone();
        i.process(&mut z);
        let e1 = rel(&z, |k| (n as f64 * x[k].re.to(), n as f64 * x[k].im.to()));
        let mut y2 = x.clone();
        i.process(&mut y2);
        let inv_x = y2.clone();
        f.process(&mut y2);
        let e2 = rel(&y2, |k| (n as f64 * x[k].re.to(), n as f64 * x[k].im.to()));
        // inverse(x) = conj(forward(conj(x)))
        let mut c: Vec<Complex<T>> = x.iter().map(|v| v.conj()).collect();
        f.process(&mut c);
        let e3 = rel(&inv_x, |k| (c[k].re.to(), -c[k].im.to()));
        (e1, e2, e3)
    });
    match r {
        Err(e) => rep.fail(format!("panic {}", tag), e),
        Ok((e1, e2, e3)) => {
            if n >= 2 {
                rep.nontrivial += 1;
            }
            let tol = 2.0 * bound(T::EPS, n) + 4.0 * f64::EPSILON;
            if !(e1 <= tol) {
                rep.fail(format!("roundtrip-fwd-inv {}", tag), format!("|inv(fwd(x)) - n x| / |n x| = {:e} > {:e}", e1, tol));
            }
            if !(e2 <= tol) {
                rep.fail(format!("roundtrip-inv-fwd {}", tag), format!("|fwd(inv(x)) - n x| / |n x| = {:e} > {:e}", e2, tol));
            }
            if !(e3 <= tol) {
                rep.fail(format!("inverse-vs-conj {}", tag), format!("|inv(x) - conj(fwd(conj x))| relative {:e} > {:e}", e3, tol));
            }
        }
    }
}

/// the property's range is "all n up to 2^22": the planners' heuristic tables branch on the exponents of 2 and 3, so every
/// 2^a * 3^b (and those times 5, 7, 11) up to 2^22 beyond the swept range is planned AND constructed in both directions
/// and both planning orders (no processing: construction already runs every constructor assert and the butterfly tables)
fn construct_only<T: Real>(kind: Kind, n: usize, rep: &mut Report) {
    for fwd_first in [(n / 7) % 2 == 0] {
        rep.evaluations += 1;
        rep.nontrivial += 1;
        let tag = format!("{}/{}/n={}/{}", kind.name(), T::NAME, n, if fwd_first { "plan-fwd-first" } else { "plan-inv-first" });
        let r = catch(|| {
            let mut p = AnyPlanner::<T>::new(kind).expect("planner unavailable");
            let (a, b) = if fwd_first { (FftDirection::Forward, FftDirection::Inverse) } else { (FftDirection::Inverse, FftDirection::Forward) };
            let f = p.plan(n, a);
            let g = p.plan(n, b);
            assert!(f.len() == n && g.len() == n, "wrong length");
            assert!(f.fft_direction() == a && g.fft_direction() == b, "direction mix-up");
        });
        if let Err(e) = r {
            rep.fail(format!("panic {} (construction only)", tag), e);
        }
    }
}

pub fn run(args: &[String]) {
    let hi: usize = args[0].parse().unwrap();
    let nstruct: usize = args[1].parse().unwrap();
    let max_bits: u32 = args[2].parse().unwrap();
    let seed = seed_from_env() ^ 0x66;
    let mut ns: Vec<usize> = (1..hi).collect();
    ns.extend(crate::k1::structured(seed, nstruct, max_bits).into_iter().filter(|&n| n >= 1));
    ns.extend(crate::util::ANCHOR_LENS.iter().copied().filter(|&n| (n as u64) < (1u64 << max_bits)));
    let shared = Shared::new();
    {
        let mut grid: Vec<usize> = vec![];
        let mut p2 = 1usize;
        for _a in 0..23 {
            let mut v = p2;
            for _b in 0..15 {
                for m in [1usize, 5, 7, 11] {
                    let n = v * m;
                    if n >= hi && n <= (1usize << 22) {
                        grid.push(n);
                    }
                }
                v *= 3;
                if v > (1usize << 22) {
                    break;
                }
            }
            p2 *= 2;
        }
        grid.sort();
        grid.dedup();
        grid.par_iter().for_each(|&n| {
            let mut rep = Report::default();
            for kind in avail() {
                construct_only::<f32>(kind, n, &mut rep);
                construct_only::<f64>(kind, n, &mut rep);
            }
            shared.merge(rep);
        });
    }
    ns.par_iter().for_each(|&n| {
        let mut rep = Report::default();
        let mut rng = Rng::new(seed ^ (n as u64).wrapping_mul(31));
        for kind in avail() {
            one::<f32>(kind, n, &mut rng, &mut rep);
            one::<f64>(kind, n, &mut rng, &mut rep);
        }
        if n == 1234 || n > 500000 {
            rep.sample(format!("n={}: 4 planners x f32/f64, random planning order, inv(fwd(x)) and fwd(inv(x)) vs n*x, inv(x) vs conj(fwd(conj x))", n));
        }
        shared.merge(rep);
    });
    shared.into_inner().print("S06-roundtrip", "one case per (planner, type, n); normal random input; tolerance 2 x 16*eps*log2(2n); non-trivial = n >= 2");
}
