//! buffers placed flush against inaccessible guard pages (PROT_NONE), and read-only buffers (PROT_READ)
use std::marker::PhantomData;

const PAGE: usize = 4096;

pub struct GuardBuf<T: Copy> {
    base: *mut u8,
    map_len: usize,
    ptr: *mut T,
    len: usize,
    _p: PhantomData<T>,
}
unsafe impl<T: Copy> Send for GuardBuf<T> {}

#[derive(Copy, Clone, PartialEq)]
pub enum Flush {
    End,   // the element after the last one is on a guard page
    Start, // the element before the first one is on a guard page
}

impl<T: Copy> GuardBuf<T> {
    pub fn new(init: &[T], flush: Flush) -> Self {
        let len = init.len();
        let bytes = len * std::mem::size_of::<T>();
        let data_pages = (bytes + PAGE - 1) / PAGE;
        let map_len = (data_pages + 2) * PAGE;
        unsafe {
            let base = libc::mmap(std::ptr::null_mut(), map_len, libc::PROT_READ | libc::PROT_WRITE, libc::MAP_PRIVATE | libc::MAP_ANONYMOUS, -1, 0) as *mut u8;
            assert!(base as isize != -1, "mmap failed");
            let data_start = base.add(PAGE);
            let data_end = base.add(PAGE + data_pages * PAGE);
            let ptr = match flush {
                Flush::Start => data_start as *mut T,
                Flush::End => data_end.sub(bytes) as *mut T,
            };
            // a zero-length buffer still gets a well-aligned pointer right at a guard boundary
            std::ptr::copy_nonoverlapping(init.as_ptr(), ptr, len);
            libc::mprotect(base as *mut _, PAGE, libc::PROT_NONE);
            libc::mprotect(data_end as *mut _, PAGE, libc::PROT_NONE);
            GuardBuf { base, map_len, ptr, len, _p: PhantomData }
        }
    }
    pub fn slice(&self) -> &[T] {
        unsafe { std::slice::from_raw_parts(self.ptr, self.len) }
    }
    pub fn slice_mut(&mut self) -> &mut [T] {
        unsafe { std::slice::from_raw_parts_mut(self.ptr, self.len) }
    }
    /// make the data pages read-only (whole pages: use with `Flush::Start`/`End` on page-multiple-free data only for detection of writes)
    pub fn protect_readonly(&mut self) {
        unsafe {
            libc::mprotect(self.base.add(PAGE) as *mut _, self.map_len - 2 * PAGE, libc::PROT_READ);
        }
    }
    pub fn unprotect(&mut self) {
        unsafe {
            libc::mprotect(self.base.add(PAGE) as *mut _, self.map_len - 2 * PAGE, libc::PROT_READ | libc::PROT_WRITE);
        }
    }
}
impl<T: Copy> Drop for GuardBuf<T> {
    fn drop(&mut self) {
        unsafe {
            libc::munmap(self.base as *mut _, self.map_len);
        }
    }
}

/// progress markers for searches that may die on a fault: START/END lines appended to $VERIF_MARKER
pub struct Marker {
    file: Option<std::sync::Mutex<std::fs::File>>,
}
impl Marker {
    pub fn new() -> Self {
        let file = std::env::var("VERIF_MARKER").ok().and_then(|p| std::fs::OpenOptions::new().create(true).append(true).open(p).ok()).map(std::sync::Mutex::new);
        Marker { file }
    }
    pub fn start(&self, key: &str) {
        if let Some(f) = &self.file {
            use std::io::Write;
            let mut f = f.lock().unwrap();
            let _ = writeln!(f, "START {}", key);
        }
    }
    pub fn end(&self, key: &str) {
        if let Some(f) = &self.file {
            use std::io::Write;
            let mut f = f.lock().unwrap();
            let _ = writeln!(f, "END {}", key);
        }
    }
}
