//! K3: `len()`, direction and the three advertised scratch lengths of *built* instances, for the model's `Recipe.spec`.
use crate::planners::*;
use crate::util::*;
use rustfft::{Fft, FftDirection, FftNum};
use std::io::Write;
use std::sync::Arc;

pub fn spec_text<T: FftNum>(fft: &Arc<dyn Fft<T>>) -> String {
    format!(
        "{} {} {} {}",
        fft.len(),
        fft.get_inplace_scratch_len(),
        fft.get_outofplace_scratch_len(),
        fft.get_immutable_scratch_len()
    )
}

fn line<T: FftNum>(kind: Kind, n: usize, dir: FftDirection) -> String {
    match catch(|| {
        let mut p = AnyPlanner::<T>::new(kind).expect("planner unavailable");
        let fft = p.plan(n, dir);
        assert_eq!(fft.fft_direction(), dir, "direction mismatch");
        spec_text(&fft)
    }) {
        Ok(s) => s,
        Err(e) => format!("ERR {}", e),
    }
}

pub fn run(args: &[String]) {
    use rayon::prelude::*;
    let kind = Kind::parse(&args[0]);
    let ty = args[1].to_string();
    let lo: usize = args[2].parse().unwrap();
    let hi: usize = args[3].parse().unwrap();
    let seed = seed_from_env() ^ 0x33;
    let lines: Vec<String> = (lo..hi)
        .into_par_iter()
        .map(|n| {
            // directions alternate pseudo-randomly; the advertised lengths must not depend on them
            let dir = if Rng::new(seed ^ n as u64).below(2) == 0 { FftDirection::Forward } else { FftDirection::Inverse };
            let s = match ty.as_str() {
                "f32" => line::<f32>(kind, n, dir),
                "f64" => line::<f64>(kind, n, dir),
                _ => panic!("bad type"),
            };
            let no_avx2 = std::env::var("VERIF_MASK").ok().and_then(|m| m.parse::<u32>().ok()).map(|m| m & 4 == 0).unwrap_or(false);
            let kname = if kind == Kind::Avx && no_avx2 { "avx-noavx2" } else { kind.name() };
            format!("spec {} {} {}\t{}", kname, ty, n, s)
        })
        .collect();
    let stdout = std::io::stdout();
    let mut out = std::io::BufWriter::new(stdout.lock());
    for l in lines {
        writeln!(out, "{}", l).unwrap();
    }
}
