//! STAT / FAIL line protocol between the harness searches and ./check
use crate::util::jstr;
use std::collections::BTreeMap;
use std::sync::Mutex;

#[derive(Default)]
pub struct Report {
    pub evaluations: u64,
    pub nontrivial: u64,
    pub fails: Vec<(String, String)>, // (key, detail json object body)
    pub hist: BTreeMap<String, u64>,
    pub samples: Vec<String>,
}
impl Report {
    pub fn merge(&mut self, o: Report) {
        self.evaluations += o.evaluations;
        self.nontrivial += o.nontrivial;
        self.fails.extend(o.fails);
        for (k, v) in o.hist {
            *self.hist.entry(k).or_insert(0) += v;
        }
        for s in o.samples {
            if self.samples.len() < 8 {
                self.samples.push(s);
            }
        }
    }
    pub fn count(&mut self, k: &str) {
        *self.hist.entry(k.to_string()).or_insert(0) += 1;
    }
    pub fn fail(&mut self, key: String, detail: String) {
        self.fails.push((key, detail));
    }
    pub fn sample(&mut self, s: String) {
        if self.samples.len() < 8 {
            self.samples.push(s);
        }
    }
    /// print the report; `name` identifies the search. At most `max_fail` FAIL lines are printed (the count is exact).
    pub fn print(&self, name: &str, rule: &str) {
        let mut fails = self.fails.clone();
        fails.sort();
        for (key, detail) in fails.iter().take(5000) {
            println!("FAIL {{\"search\":{},\"key\":{},\"detail\":{}}}", jstr(name), jstr(key), jstr(detail));
        }
        let hist: Vec<String> = self.hist.iter().map(|(k, v)| format!("{}:{}", jstr(k), v)).collect();
        let samples: Vec<String> = self.samples.iter().map(|s| jstr(s)).collect();
        println!(
            "STAT {{\"search\":{},\"evaluations\":{},\"distinct_nontrivial\":{},\"failures\":{},\"rule\":{},\"hist\":{{{}}},\"samples\":[{}]}}",
            jstr(name),
            self.evaluations,
            self.nontrivial,
            self.fails.len(),
            jstr(rule),
            hist.join(","),
            samples.join(",")
        );
    }
}

pub struct Shared(pub Mutex<Report>);
impl Shared {
    pub fn new() -> Self {
        Shared(Mutex::new(Report::default()))
    }
    pub fn merge(&self, r: Report) {
        self.0.lock().unwrap().merge(r);
    }
    pub fn into_inner(self) -> Report {
        self.0.into_inner().unwrap()
    }
}
