use std::panic::{self, AssertUnwindSafe};

/// splitmix64 — every random choice in the harness derives from one of these
#[derive(Clone)]
pub struct Rng(pub u64);
impl Rng {
    pub fn new(seed: u64) -> Self {
        Rng(seed ^ 0x9E3779B97F4A7C15)
    }
    pub fn next(&mut self) -> u64 {
        self.0 = self.0.wrapping_add(0x9E3779B97F4A7C15);
        let mut z = self.0;
        z = (z ^ (z >> 30)).wrapping_mul(0xBF58476D1CE4E5B9);
        z = (z ^ (z >> 27)).wrapping_mul(0x94D049BB133111EB);
        z ^ (z >> 31)
    }
    pub fn below(&mut self, n: u64) -> u64 {
        if n == 0 {
            0
        } else {
            self.next() % n
        }
    }
    pub fn unit(&mut self) -> f64 {
        (self.next() >> 11) as f64 / (1u64 << 53) as f64
    }
    pub fn normal(&mut self) -> f64 {
        let u1 = self.unit().max(1e-300);
        let u2 = self.unit();
        (-2.0 * u1.ln()).sqrt() * (2.0 * std::f64::consts::PI * u2).cos()
    }
}

pub fn silence_panics() {
    panic::set_hook(Box::new(|_| {}));
}

/// run `f`, mapping a panic to Err(message)
pub fn catch<R>(f: impl FnOnce() -> R) -> Result<R, String> {
    match panic::catch_unwind(AssertUnwindSafe(f)) {
        Ok(r) => Ok(r),
        Err(e) => {
            let msg = if let Some(s) = e.downcast_ref::<&str>() {
                s.to_string()
            } else if let Some(s) = e.downcast_ref::<String>() {
                s.clone()
            } else {
                "panic".to_string()
            };
            Err(msg)
        }
    }
}

pub fn seed_from_env() -> u64 {
    std::env::var("VERIF_SEED").ok().and_then(|s| s.parse().ok()).unwrap_or(1)
}

pub fn is_prime_u64(n: u64) -> bool {
    if n < 2 {
        return false;
    }
    for q in [2u64, 3, 5, 7, 11, 13, 17, 19, 23, 29, 31, 37] {
        if n % q == 0 {
            return n == q;
        }
    }
    let mulm = |a: u64, b: u64| ((a as u128 * b as u128) % n as u128) as u64;
    let powm = |mut b: u64, mut e: u64| {
        let mut r = 1u64;
        b %= n;
        while e > 0 {
            if e & 1 == 1 {
                r = mulm(r, b);
            }
            b = mulm(b, b);
            e >>= 1;
        }
        r
    };
    let mut d = n - 1;
    let mut s = 0;
    while d % 2 == 0 {
        d /= 2;
        s += 1;
    }
    'a: for a in [2u64, 3, 5, 7, 11, 13, 17, 19, 23, 29, 31, 37] {
        let mut x = powm(a, d);
        if x == 1 || x == n - 1 {
            continue;
        }
        for _ in 0..s - 1 {
            x = mulm(x, x);
            if x == n - 1 {
                continue 'a;
            }
        }
        return false;
    }
    true
}

pub fn isqrt(n: u64) -> u64 {
    let mut x = (n as f64).sqrt() as u64;
    while x * x > n {
        x -= 1;
    }
    while (x + 1) * (x + 1) <= n {
        x += 1;
    }
    x
}

/// json string escaping for the few free-text fields we emit
pub fn jstr(s: &str) -> String {
    let mut o = String::from("\"");
    for c in s.chars() {
        match c {
            '"' => o.push_str("\\\""),
            '\\' => o.push_str("\\\\"),
            '\n' => o.push_str("\\n"),
            '\t' => o.push_str("\\t"),
            c if (c as u32) < 0x20 => o.push_str(&format!("\\u{:04x}", c as u32)),
            c => o.push(c),
        }
    }
    o.push('"');
    o
}

/// is this panic message one of the call-shape validation panics (the only panics an ill-shaped call may end in)?
pub fn is_validation_panic(msg: &str) -> bool {
    msg.contains("Provided FFT buffer was too small")
        || msg.contains("must be a multiple of FFT length")
        || msg.contains("Not enough scratch space was provided")
        || msg.contains("must have the same length")
        || msg.contains("does not match destination slice length") // Butterfly1: copy_from_slice
        || msg.contains("copy_from_slice")
}

/// lengths every numeric search includes whatever its random structured sample contains: large Rader primes with a smooth
/// p - 1 (7681, 12289, 40961), Bluestein primes (4099, 10007, 32771: inner length >= 65536), mixed-radix chains over a
/// Bluestein / Rader base (8198, 15362), 3*2^k lengths (Radix4 over a 12/24 base), a product of two Bluestein primes
pub const ANCHOR_LENS: [usize; 14] = [719, 1439, 1536, 3072, 4099, 6144, 7681, 8198, 10007, 12289, 15362, 32771, 40961, 59 * 83];
