//! the four planners behind one interface
use rustfft::{Fft, FftDirection, FftNum, FftPlanner, FftPlannerAvx, FftPlannerScalar, FftPlannerSse};
use std::sync::Arc;

#[derive(Copy, Clone, Debug, PartialEq, Eq)]
pub enum Kind {
    Auto,
    Scalar,
    Sse,
    Avx,
}
impl Kind {
    pub fn parse(s: &str) -> Kind {
        match s {
            "auto" => Kind::Auto,
            "scalar" => Kind::Scalar,
            "sse" => Kind::Sse,
            "avx" => Kind::Avx,
            _ => panic!("bad planner kind {}", s),
        }
    }
    pub fn name(&self) -> &'static str {
        match self {
            Kind::Auto => "auto",
            Kind::Scalar => "scalar",
            Kind::Sse => "sse",
            Kind::Avx => "avx",
        }
    }
    pub const ALL: [Kind; 4] = [Kind::Auto, Kind::Scalar, Kind::Sse, Kind::Avx];
}

pub enum AnyPlanner<T: FftNum> {
    Auto(FftPlanner<T>),
    Scalar(FftPlannerScalar<T>),
    Sse(FftPlannerSse<T>),
    Avx(FftPlannerAvx<T>),
}
impl<T: FftNum> AnyPlanner<T> {
    pub fn new(kind: Kind) -> Option<Self> {
        match kind {
            Kind::Auto => Some(AnyPlanner::Auto(FftPlanner::new())),
            Kind::Scalar => Some(AnyPlanner::Scalar(FftPlannerScalar::new())),
            Kind::Sse => FftPlannerSse::new().ok().map(AnyPlanner::Sse),
            Kind::Avx => FftPlannerAvx::new().ok().map(AnyPlanner::Avx),
        }
    }
    pub fn plan(&mut self, len: usize, dir: FftDirection) -> Arc<dyn Fft<T>> {
        match self {
            AnyPlanner::Auto(p) => p.plan_fft(len, dir),
            AnyPlanner::Scalar(p) => p.plan_fft(len, dir),
            AnyPlanner::Sse(p) => p.plan_fft(len, dir),
            AnyPlanner::Avx(p) => p.plan_fft(len, dir),
        }
    }
}

pub fn dir_name(d: FftDirection) -> &'static str {
    match d {
        FftDirection::Forward => "fwd",
        FftDirection::Inverse => "inv",
    }
}
pub fn parse_dir(s: &str) -> FftDirection {
    match s {
        "fwd" => FftDirection::Forward,
        "inv" => FftDirection::Inverse,
        _ => panic!("bad direction"),
    }
}

/// the planner kinds that construct under the current CPU-feature mask and cargo features
pub fn avail() -> Vec<Kind> {
    Kind::ALL.iter().copied().filter(|&k| AnyPlanner::<f32>::new(k).is_some()).collect()
}
