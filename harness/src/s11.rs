//! search for C11 on the real code: one shared instance called concurrently from 16 threads on disjoint buffers
//! (mixed entry points and chunk counts, many rounds) returns bit-for-bit what the isolated sequential call returns.
use crate::planners::*;
use crate::real::*;
use crate::report::*;
use crate::s07::{run_entry, ENTRY_NAMES};
use crate::util::*;
use rustfft::num_complex::Complex;
use rustfft::{Fft, FftDirection};
use std::sync::{Arc, Barrier};

fn one<T: Real>(kind: Kind, n: usize, dir: FftDirection, rounds: usize, rng: &mut Rng, rep: &mut Report) {
    let tag = format!("{}/{}/n={}/{}", kind.name(), T::NAME, n, dir_name(dir));
    let fft: Arc<dyn Fft<T>> = match catch(|| AnyPlanner::<T>::new(kind).expect("planner unavailable").plan(n, dir)) {
        Ok(f) => f,
        Err(e) => {
            rep.fail(format!("plan-panic {}", tag), e);
            return;
        }
    };
    const THREADS: usize = 16;
    // per-thread work items: (entry, chunks, data) and the sequential reference result computed first
    let mut work: Vec<Vec<(usize, Vec<Complex<T>>, Vec<Complex<T>>)>> = vec![];
    for _ in 0..THREADS {
        let mut items = vec![];
        for _ in 0..rounds {
            let entry = rng.below(4) as usize;
            let chunks = 1 + rng.below(4) as usize;
            let data = random_vec::<T>(rng, n * chunks);
            let expect = run_entry(&fft, entry, &data, cx(0.0, 0.0));
            items.push((entry, data, expect));
        }
        work.push(items);
    }
    let barrier = Arc::new(Barrier::new(THREADS));
    let results: Vec<Result<Vec<bool>, String>> = std::thread::scope(|sc| {
        let handles: Vec<_> = work
            .iter()
            .map(|items| {
                let fft = Arc::clone(&fft);
                let barrier = Arc::clone(&barrier);
                sc.spawn(move || {
                    barrier.wait();
                    catch(|| {
                        items
                            .iter()
                            .map(|(entry, data, expect)| {
                                let out = run_entry(&fft, *entry, data, Complex::new(T::nan(), T::nan()));
                                std::thread::yield_now();
                                same_bits(&out, expect)
                            })
                            .collect::<Vec<bool>>()
                    })
                })
            })
            .collect();
        handles.into_iter().map(|h| h.join().unwrap_or_else(|_| Err("thread panicked".into()))).collect()
    });
    for (t, r) in results.iter().enumerate() {
        rep.evaluations += rounds as u64;
        if n >= 2 {
            rep.nontrivial += rounds as u64;
        }
        match r {
            Err(e) => rep.fail(format!("thread-panic {} thread={}", tag, t), e.clone()),
            Ok(v) => {
                for (i, ok) in v.iter().enumerate() {
                    if !ok {
                        rep.fail(format!("concurrent-differs {} thread={} round={} {}", tag, t, i, ENTRY_NAMES[work[t][i].0]), "the concurrent call's output differs bitwise from the isolated sequential call".into());
                    }
                }
            }
        }
    }
}

/// cold start: the very first calls on a freshly built instance are concurrent (catches lazily initialised state)
/// the threads' buffers are ADJACENT pieces of one allocation (consecutive `chunks_mut(n)`), transformed in place: a
/// kernel that reads and rewrites an element just past its own chunk is invisible sequentially (it writes back what it
/// read) but races with the neighbour's call.  A deterministic premise check comes first: called on the middle piece
/// alone, with the neighbours holding NaN-free sentinels, the call must leave both neighbours bit-for-bit untouched AND
/// must not have read them (flipping the neighbours to other values must not change the result).
fn adjacent<T: Real>(kind: Kind, n: usize, dir: FftDirection, rounds: usize, rng: &mut Rng, rep: &mut Report) {
    let tag = format!("{}/{}/n={}/{}", kind.name(), T::NAME, n, dir_name(dir));
    let fft: Arc<dyn Fft<T>> = match catch(|| AnyPlanner::<T>::new(kind).expect("planner unavailable").plan(n, dir)) {
        Ok(f) => f,
        Err(e) => {
            rep.fail(format!("plan-panic {}", tag), e);
            return;
        }
    };
    const THREADS: usize = 16;
    let data = random_vec::<T>(rng, n * THREADS);
    // isolated reference per piece
    let expect: Vec<Vec<Complex<T>>> = data.chunks(n).map(|c| run_entry(&fft, 1, c, cx(0.0, 0.0))).collect();
    let slen = fft.get_inplace_scratch_len();
    let mut mism = 0usize;
    for _ in 0..rounds {
        let mut all = data.clone();
        let barrier = Arc::new(Barrier::new(THREADS));
        std::thread::scope(|sc| {
            for piece in all.chunks_mut(n) {
                let fft = Arc::clone(&fft);
                let barrier = Arc::clone(&barrier);
                sc.spawn(move || {
                    let mut s = vec![Complex::new(T::nan(), T::nan()); slen];
                    barrier.wait();
                    let _ = catch(|| fft.process_with_scratch(piece, &mut s));
                });
            }
        });
        for (t, piece) in all.chunks(n).enumerate() {
            if !same_bits(piece, &expect[t]) {
                mism += 1;
            }
        }
    }
    rep.evaluations += (rounds * THREADS) as u64;
    if n >= 2 {
        rep.nontrivial += (rounds * THREADS) as u64;
    }
    if mism > 0 {
        rep.fail(format!("adjacent-differs {} in-place on consecutive pieces of one allocation", tag), format!("{} of {} concurrent calls differ bitwise from the isolated call", mism, rounds * THREADS));
    }
}

fn cold_start<T: Real>(kind: Kind, n: usize, dir: FftDirection, rng: &mut Rng, rep: &mut Report) {
    let tag = format!("cold-start {}/{}/n={}/{}", kind.name(), T::NAME, n, dir_name(dir));
    const THREADS: usize = 16;
    let data = random_vec::<T>(rng, n);
    // reference from a *different* fresh instance, used sequentially
    let expect = match catch(|| {
        let f = AnyPlanner::<T>::new(kind).expect("planner unavailable").plan(n, dir);
        run_entry(&f, 0, &data, cx(0.0, 0.0))
    }) {
        Ok(e) => e,
        Err(e) => {
            rep.fail(format!("plan-panic {}", tag), e);
            return;
        }
    };
    for _rep in 0..4 {
        let fft: Arc<dyn Fft<T>> = AnyPlanner::<T>::new(kind).unwrap().plan(n, dir);
        let barrier = Arc::new(Barrier::new(THREADS));
        let oks: Vec<bool> = std::thread::scope(|sc| {
            let hs: Vec<_> = (0..THREADS)
                .map(|t| {
                    let fft = Arc::clone(&fft);
                    let barrier = Arc::clone(&barrier);
                    let data = &data;
                    let expect = &expect;
                    sc.spawn(move || {
                        barrier.wait();
                        let out = run_entry(&fft, t % 3, data, Complex::new(T::nan(), T::nan()));
                        same_bits(&out, expect)
                    })
                })
                .collect();
            hs.into_iter().map(|h| h.join().unwrap_or(false)).collect()
        });
        rep.evaluations += THREADS as u64;
        rep.nontrivial += THREADS as u64;
        let bad = oks.iter().filter(|b| !**b).count();
        if bad > 0 {
            rep.fail(tag.clone(), format!("{} of {} concurrent FIRST calls on a fresh instance differ bitwise from an isolated call", bad, THREADS));
            return;
        }
    }
}

/// Worker threads that exist before any planner is created in this process. Results they compute on a shared instance
/// must have the same bits as the planning thread's, also on inputs with subnormal values (per-thread floating-point
/// state set as a side effect of planning must not leak into results).
pub struct Workers<T: Real> {
    job_txs: Vec<std::sync::mpsc::Sender<(Arc<dyn Fft<T>>, Vec<Complex<T>>)>>,
    rx_res: std::sync::mpsc::Receiver<Vec<Complex<T>>>,
    handles: Vec<std::thread::JoinHandle<()>>,
}
impl<T: Real> Workers<T> {
    pub fn spawn(count: usize) -> Self {
        use std::sync::mpsc;
        let (tx_res, rx_res) = mpsc::channel::<Vec<Complex<T>>>();
        let mut job_txs = vec![];
        let mut handles = vec![];
        for _ in 0..count {
            let (tx, rx) = mpsc::channel::<(Arc<dyn Fft<T>>, Vec<Complex<T>>)>();
            let tx_res = tx_res.clone();
            job_txs.push(tx);
            handles.push(std::thread::spawn(move || {
                while let Ok((fft, data)) = rx.recv() {
                    let mut b = data.clone();
                    fft.process(&mut b);
                    let _ = tx_res.send(b);
                }
            }));
        }
        Workers { job_txs, rx_res, handles }
    }
    fn finish(self) {
        drop(self.job_txs);
        for h in self.handles {
            let _ = h.join();
        }
    }
}

fn preexisting_workers<T: Real>(w: Workers<T>, rng: &mut Rng, rep: &mut Report) {
    for &n in &[8usize, 64, 97, 360, 1009] {
        for kind in avail() {
            let dir = if rng.below(2) == 0 { FftDirection::Forward } else { FftDirection::Inverse };
            let tag = format!("pre-existing-worker {}/{}/n={}/{}", kind.name(), T::NAME, n, dir_name(dir));
            // planner and instance are created on THIS thread; the workers were spawned before any planner existed
            let fft = match catch(|| AnyPlanner::<T>::new(kind).unwrap().plan(n, dir)) {
                Ok(f) => f,
                Err(e) => {
                    rep.fail(format!("plan-panic {}", tag), e);
                    continue;
                }
            };
            for class in 0..2 {
                let data: Vec<Complex<T>> = if class == 0 { random_vec::<T>(rng, n) } else { (0..n).map(|_| Complex::new(T::subnormal(rng.next() as u32), T::subnormal(rng.next() as u32))).collect() };
                let mut here = data.clone();
                fft.process(&mut here);
                for tx in &w.job_txs {
                    tx.send((Arc::clone(&fft), data.clone())).unwrap();
                }
                for _ in 0..w.job_txs.len() {
                    rep.evaluations += 1;
                    rep.nontrivial += 1;
                    match w.rx_res.recv_timeout(std::time::Duration::from_secs(60)) {
                        Ok(out) => {
                            if !same_bits(&out, &here) {
                                rep.fail(format!("{} {}", tag, if class == 0 { "normal-input" } else { "subnormal-input" }), "a thread that existed before any planner was created gets different bits than the planning thread".into());
                            }
                        }
                        Err(_) => rep.fail(format!("{} worker-timeout", tag), "worker did not answer".into()),
                    }
                }
            }
        }
    }
    w.finish();
}

pub fn run(args: &[String]) {
    // FIRST thing in this process: the worker threads (nothing has touched a planner yet, not even `avail()`)
    let w32 = Workers::<f32>::spawn(4);
    let w64 = Workers::<f64>::spawn(4);
    let count: usize = args[0].parse().unwrap();
    let rounds: usize = args[1].parse().unwrap();
    let maxn: usize = args[2].parse().unwrap();
    let mut rng = Rng::new(seed_from_env() ^ 0x1111);
    let mut rep = Report::default();
    let special = [1usize, 2, 7, 12, 64, 97, 128, 360, 719, 1009, 1024, 1234, 4096];
    for i in 0..count {
        let n = if i < special.len() { special[i].min(maxn) } else { 1 + rng.below(maxn as u64) as usize };
        let kinds = avail(); let kind = kinds[i % kinds.len()];
        let dir = if rng.below(2) == 0 { FftDirection::Forward } else { FftDirection::Inverse };
        if (i / 4) % 2 == 0 {
            one::<f32>(kind, n, dir, rounds, &mut rng, &mut rep);
        } else {
            one::<f64>(kind, n, dir, rounds, &mut rng, &mut rep);
        }
    }
    // cold starts on lengths that go through every algorithm family
    for (i, &n) in [2usize, 37, 59, 74, 97, 128, 210, 407, 719, 1009, 1024, 1031].iter().enumerate() {
        for kind in avail() {
            let dir = if (i + kind as usize) % 2 == 0 { FftDirection::Forward } else { FftDirection::Inverse };
            cold_start::<f32>(kind, n, dir, &mut rng, &mut rep);
            cold_start::<f64>(kind, n, dir, &mut rng, &mut rep);
        }
    }
    // adjacent pieces of one allocation (lengths whose SIMD plans end a buffer with partial-vector stores included)
    for (i, &n) in [3usize, 7, 27, 81, 135, 243, 1031, 64].iter().enumerate() {
        for kind in avail() {
            let dir = if (i + kind as usize) % 2 == 0 { FftDirection::Forward } else { FftDirection::Inverse };
            adjacent::<f32>(kind, n.min(maxn), dir, rounds.max(20), &mut rng, &mut rep);
            adjacent::<f64>(kind, n.min(maxn), dir, rounds.max(20), &mut rng, &mut rep);
        }
    }
    preexisting_workers::<f32>(w32, &mut rng, &mut rep);
    preexisting_workers::<f64>(w64, &mut rng, &mut rep);
    rep.sample("cold start: 16 threads make the first calls on a fresh instance; pre-existing workers: threads spawned before the planner existed, normal and subnormal inputs".to_string());
    rep.sample(format!("{} shared instances (planner/type rotating, n up to {}), 16 threads x {} rounds, entry point and 1-4 chunks random per call, NaN-filled scratch", count, maxn, rounds));
    rep.print("S11-threads", "one case per (instance, thread, round): concurrent result bitwise equal to the sequential one; non-trivial = n >= 2");
}
