//! search for C11 on the real code: one shared instance called concurrently from 16 threads on disjoint buffers
//! (mixed entry points and chunk counts, many rounds) returns bit-for-bit what the isolated sequential call returns.
use crate::planners::*;
use crate::real::*;
use crate::report::*;
use crate::s07::{run_entry, ENTRY_NAMES};
use crate::util::*;
use rustfft::num_complex::Complex;
use rustfft::{Fft, FftDirection};
use std::sync::{Arc, Barrier};

fn one<T: Real>(kind: Kind, n: usize, dir: FftDirection, rounds: usize, rng: &mut Rng, rep: &mut Report) {
    let tag = format!("{}/{}/n={}/{}", kind.name(), T::NAME, n, dir_name(dir));
    let fft: Arc<dyn Fft<T>> = match catch(|| AnyPlanner::<T>::new(kind).expect("planner unavailable").plan(n, dir)) {
        Ok(f) => f,
        Err(e) => {
            rep.fail(format!("plan-panic {}", tag), e);
            return;
        }
    };
    const THREADS: usize = 16;
    // per-thread work items: (entry, chunks, data) and the sequential reference result computed first
    let mut work: Vec<Vec<(usize, Vec<Complex<T>>, Vec<Complex<T>>)>> = vec![];
    for _ in 0..THREADS {
        let mut items = vec![];
        for _ in 0..rounds {
            let entry = rng.below(4) as usize;
            let chunks = 1 + rng.below(4) as usize;
            let data = random_vec::<T>(rng, n * chunks);
            let expect = run_entry(&fft, entry, &data, cx(0.0, 0.0));
            items.push((entry, data, expect));
        }
        work.push(items);
    }
    let barrier = Arc::new(Barrier::new(THREADS));
    let results: Vec<Result<Vec<bool>, String>> = std::thread::scope(|sc| {
        let handles: Vec<_> = work
            .iter()
            .map(|items| {
                let fft = Arc::clone(&fft);
                let barrier = Arc::clone(&barrier);
                sc.spawn(move || {
                    barrier.wait();
                    catch(|| {
                        items
                            .iter()
                            .map(|(entry, data, expect)| {
                                let out = run_entry(&fft, *entry, data, Complex::new(T::nan(), T::nan()));
                                std::thread::yield_now();
                                same_bits(&out, expect)
                            })
                            .collect::<Vec<bool>>()
                    })
                })
            })
            .collect();
        handles.into_iter().map(|h| h.join().unwrap_or_else(|_| Err("thread panicked".into()))).collect()
    });
    for (t, r) in results.iter().enumerate() {
        rep.evaluations += rounds as u64;
        if n >= 2 {
            rep.nontrivial += rounds as u64;
        }
        match r {
            Err(e) => rep.fail(format!("thread-panic {} thread={}", tag, t), e.clone()),
            Ok(v) => {
                for (i, ok) in v.iter().enumerate() {
                    if !ok {
                        rep.fail(format!("concurrent-differs {} thread={} round={} {}", tag, t, i, ENTRY_NAMES[work[t][i].0]), "the concurrent call's output differs bitwise from the isolated sequential call".into());
                    }
                }
            }
        }
    }
}

pub fn run(args: &[String]) {
    let count: usize = args[0].parse().unwrap();
    let rounds: usize = args[1].parse().unwrap();
    let maxn: usize = args[2].parse().unwrap();
    let mut rng = Rng::new(seed_from_env() ^ 0x1111);
    let mut rep = Report::default();
    let special = [1usize, 2, 7, 12, 64, 97, 128, 360, 719, 1009, 1024, 1234, 4096];
    for i in 0..count {
        let n = if i < special.len() { special[i].min(maxn) } else { 1 + rng.below(maxn as u64) as usize };
        let kinds = avail(); let kind = kinds[i % kinds.len()];
        let dir = if rng.below(2) == 0 { FftDirection::Forward } else { FftDirection::Inverse };
        if (i / 4) % 2 == 0 {
            one::<f32>(kind, n, dir, rounds, &mut rng, &mut rep);
        } else {
            one::<f64>(kind, n, dir, rounds, &mut rng, &mut rep);
        }
    }
    rep.sample(format!("{} shared instances (planner/type rotating, n up to {}), 16 threads x {} rounds, entry point and 1-4 chunks random per call, NaN-filled scratch", count, maxn, rounds));
    rep.print("S11-threads", "one case per (instance, thread, round): concurrent result bitwise equal to the sequential one; non-trivial = n >= 2");
}
