//! search for C02's mechanisms on the real code (hook H3): compute_twiddle and fill_bluesteins_twiddles against an
//! accurately reduced reference (octant reduction), for small and very large lengths and indices.
use crate::refdft::cos_sin_2pi;
use crate::report::*;
use crate::util::*;
use rustfft::num_complex::Complex;
use rustfft::verif_hooks::{compute_twiddle, fill_bluesteins_twiddles};
use rustfft::FftDirection;

fn ulp64(x: f64) -> f64 {
    let a = x.abs().max(f64::MIN_POSITIVE);
    f64::from_bits(a.to_bits() + 1) - a
}

pub fn run(args: &[String]) {
    let small: usize = args[0].parse().unwrap();
    let nlarge: usize = args[1].parse().unwrap();
    let maxbits: u32 = args[2].parse().unwrap();
    let mut rng = Rng::new(seed_from_env() ^ 0x0202);
    let mut rep = Report::default();
    let mut worst = 0.0f64;
    let mut check = |len: usize, idx: usize, got: Complex<f64>, inverse: bool, what: &str, rep: &mut Report, worst: &mut f64| {
        rep.evaluations += 1;
        if idx > 0 {
            rep.nontrivial += 1;
        }
        let (c, s) = cos_sin_2pi((idx % len) as u64, len as u64);
        let want = if inverse { (c, s) } else { (c, -s) };
        // absolute error relative to unit magnitude: a twiddle is good if it is within ~1e-15 of the true point on the circle
        let err = ((got.re - want.0).powi(2) + (got.im - want.1).powi(2)).sqrt();
        let tol = 4.0 * f64::EPSILON + 2.0 * std::f64::consts::PI * (idx as f64 / len as f64) * f64::EPSILON * 2.0;
        if err > *worst {
            *worst = err;
        }
        if !(err <= tol) {
            rep.fail(format!("{} len={} index={}", what, len, idx), format!("|twiddle - exact| = {:e} > {:e}", err, tol));
        }
    };
    // compute_twiddle, reduced indices, all of them for small lengths
    for len in 1..small {
        for idx in 0..len {
            let t: Complex<f64> = compute_twiddle(idx, len, if idx % 2 == 0 { FftDirection::Forward } else { FftDirection::Inverse });
            check(len, idx, t, idx % 2 == 1, "compute_twiddle", &mut rep, &mut worst);
        }
    }
    // Bluestein chirp tables: every entry for small lengths, sampled entries for large ones (the table must equal
    // the twiddle of i*i reduced modulo 2 len *exactly in integers*)
    let mut lens: Vec<usize> = (1..small.min(600)).collect();
    for _ in 0..nlarge {
        let b = 10 + rng.below(maxbits as u64 - 10) as u32;
        lens.push(((1usize << b) + rng.below(1 << (b - 1)) as usize) | 1);
    }
    for len in lens {
        let mut table = vec![Complex::new(0.0f64, 0.0); len];
        let inverse = len % 2 == 0;
        fill_bluesteins_twiddles(&mut table, if inverse { FftDirection::Inverse } else { FftDirection::Forward });
        let idxs: Vec<usize> = if len <= 600 { (0..len).collect() } else { (0..400).map(|_| rng.below(len as u64) as usize).chain([len - 1, len - 2, len / 2]).collect() };
        for i in idxs {
            let sq = ((i as u128 * i as u128) % (2 * len as u128)) as usize;
            check(2 * len, sq, table[i], inverse, "fill_bluesteins_twiddles", &mut rep, &mut worst);
        }
    }
    rep.hist.insert("worst |twiddle - exact| x 1e18".into(), (worst * 1e18) as u64);
    rep.sample(format!("compute_twiddle(i, len) for all i < len < {}; Bluestein chirp tables for len < 600 (all entries) and {} lengths up to 2^{} (sampled entries, incl. the last ones where i*i is largest)", small, nlarge, maxbits));
    rep.print("S02-twiddles", "one case per (function, len, index); reference = octant-reduced cos/sin of the exactly reduced integer index; tolerance ~1e-15 absolute on the unit circle; non-trivial = index > 0");
}
