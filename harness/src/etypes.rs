//! further third element types: an operation-counting type (size 16, unlike f32/f64) and a double-double type
use rustfft::num_traits::{FromPrimitive, Num, One, Signed, ToPrimitive, Zero};
use std::cell::Cell;
use std::ops::*;

thread_local! {
    pub static OPS: Cell<u64> = Cell::new(0);
    pub static NONRING: Cell<u64> = Cell::new(0);
}
pub fn ops_reset() {
    OPS.with(|c| c.set(0));
}
pub fn ops_get() -> u64 {
    OPS.with(|c| c.get())
}
fn tick() {
    OPS.with(|c| c.set(c.get() + 1));
}
fn nonring() {
    NONRING.with(|c| c.set(c.get() + 1));
}
pub fn nonring_get() -> u64 {
    NONRING.with(|c| c.get())
}

/// counts every `+ - *` performed on it (negation, copies and conversions are free); 16 bytes
#[derive(Copy, Clone, Debug, PartialEq, PartialOrd)]
pub struct OpCount {
    pub v: f64,
    pub pad: u64,
}
impl OpCount {
    pub fn new(v: f64) -> Self {
        OpCount { v, pad: 0 }
    }
}
macro_rules! oc_bin {
    ($tr:ident, $f:ident, $op:tt) => {
        impl $tr for OpCount {
            type Output = OpCount;
            fn $f(self, o: OpCount) -> OpCount {
                tick();
                OpCount::new(self.v $op o.v)
            }
        }
    };
}
oc_bin!(Add, add, +);
oc_bin!(Sub, sub, -);
oc_bin!(Mul, mul, *);
impl Div for OpCount {
    type Output = OpCount;
    fn div(self, o: OpCount) -> OpCount {
        OpCount::new(self.v / o.v)
    }
}
impl Rem for OpCount {
    type Output = OpCount;
    fn rem(self, o: OpCount) -> OpCount {
        nonring();
        OpCount::new(self.v % o.v)
    }
}
impl Neg for OpCount {
    type Output = OpCount;
    fn neg(self) -> OpCount {
        OpCount::new(-self.v)
    }
}
impl Zero for OpCount {
    fn zero() -> Self {
        OpCount::new(0.0)
    }
    fn is_zero(&self) -> bool {
        self.v == 0.0
    }
}
impl One for OpCount {
    fn one() -> Self {
        OpCount::new(1.0)
    }
}
impl Num for OpCount {
    type FromStrRadixErr = ();
    fn from_str_radix(_: &str, _: u32) -> Result<Self, ()> {
        Err(())
    }
}
impl Signed for OpCount {
    fn abs(&self) -> Self {
        nonring();
        OpCount::new(self.v.abs())
    }
    fn abs_sub(&self, o: &Self) -> Self {
        nonring();
        OpCount::new((self.v - o.v).max(0.0))
    }
    fn signum(&self) -> Self {
        nonring();
        OpCount::new(self.v.signum())
    }
    fn is_positive(&self) -> bool {
        nonring();
        self.v > 0.0
    }
    fn is_negative(&self) -> bool {
        nonring();
        self.v < 0.0
    }
}
impl ToPrimitive for OpCount {
    fn to_i64(&self) -> Option<i64> {
        Some(self.v as i64)
    }
    fn to_u64(&self) -> Option<u64> {
        Some(self.v as u64)
    }
    fn to_f64(&self) -> Option<f64> {
        Some(self.v)
    }
}
impl FromPrimitive for OpCount {
    fn from_i64(n: i64) -> Option<Self> {
        Some(OpCount::new(n as f64))
    }
    fn from_u64(n: u64) -> Option<Self> {
        Some(OpCount::new(n as f64))
    }
    fn from_f64(v: f64) -> Option<Self> {
        Some(OpCount::new(v))
    }
}

/// double-double: ~106 bits of significand
#[derive(Copy, Clone, Debug, PartialEq, PartialOrd)]
pub struct Dd {
    pub hi: f64,
    pub lo: f64,
}
fn two_sum(a: f64, b: f64) -> (f64, f64) {
    let s = a + b;
    let bb = s - a;
    (s, (a - (s - bb)) + (b - bb))
}
fn two_prod(a: f64, b: f64) -> (f64, f64) {
    let p = a * b;
    (p, a.mul_add(b, -p))
}
impl Dd {
    pub fn new(v: f64) -> Dd {
        Dd { hi: v, lo: 0.0 }
    }
    pub fn val(self) -> f64 {
        self.hi + self.lo
    }
}
impl Add for Dd {
    type Output = Dd;
    fn add(self, o: Dd) -> Dd {
        let (s, e) = two_sum(self.hi, o.hi);
        let e = e + self.lo + o.lo;
        let (hi, lo) = two_sum(s, e);
        Dd { hi, lo }
    }
}
impl Neg for Dd {
    type Output = Dd;
    fn neg(self) -> Dd {
        Dd { hi: -self.hi, lo: -self.lo }
    }
}
impl Sub for Dd {
    type Output = Dd;
    fn sub(self, o: Dd) -> Dd {
        self + (-o)
    }
}
impl Mul for Dd {
    type Output = Dd;
    fn mul(self, o: Dd) -> Dd {
        let (p, e) = two_prod(self.hi, o.hi);
        let e = e + self.hi * o.lo + self.lo * o.hi;
        let (hi, lo) = two_sum(p, e);
        Dd { hi, lo }
    }
}
impl Div for Dd {
    type Output = Dd;
    fn div(self, o: Dd) -> Dd {
        let q1 = self.hi / o.hi;
        let r = self - o * Dd::new(q1);
        let q2 = r.hi / o.hi;
        let r = r - o * Dd::new(q2);
        let q3 = r.hi / o.hi;
        Dd::new(q1) + Dd::new(q2) + Dd::new(q3)
    }
}
impl Rem for Dd {
    type Output = Dd;
    fn rem(self, _o: Dd) -> Dd {
        panic!("Dd: rem is not a ring operation")
    }
}
impl Zero for Dd {
    fn zero() -> Self {
        Dd::new(0.0)
    }
    fn is_zero(&self) -> bool {
        self.hi == 0.0 && self.lo == 0.0
    }
}
impl One for Dd {
    fn one() -> Self {
        Dd::new(1.0)
    }
}
impl Num for Dd {
    type FromStrRadixErr = ();
    fn from_str_radix(_: &str, _: u32) -> Result<Self, ()> {
        Err(())
    }
}
impl Signed for Dd {
    fn abs(&self) -> Self {
        panic!("Dd: abs is not a ring operation")
    }
    fn abs_sub(&self, _: &Self) -> Self {
        panic!("Dd: abs_sub is not a ring operation")
    }
    fn signum(&self) -> Self {
        panic!("Dd: signum is not a ring operation")
    }
    fn is_positive(&self) -> bool {
        panic!("Dd: is_positive is not a ring operation")
    }
    fn is_negative(&self) -> bool {
        panic!("Dd: is_negative is not a ring operation")
    }
}
impl ToPrimitive for Dd {
    fn to_i64(&self) -> Option<i64> {
        Some(self.hi as i64)
    }
    fn to_u64(&self) -> Option<u64> {
        Some(self.hi as u64)
    }
    fn to_f64(&self) -> Option<f64> {
        Some(self.val())
    }
}
impl FromPrimitive for Dd {
    fn from_i64(n: i64) -> Option<Self> {
        Some(Dd::new(n as f64))
    }
    fn from_u64(n: u64) -> Option<Self> {
        Some(Dd::new(n as f64))
    }
    fn from_f64(v: f64) -> Option<Self> {
        Some(Dd::new(v))
    }
}

/// transparent newtypes over f32 / f64: same size and arithmetic as the float, but a different *type* —
/// a SIMD planner that gates on `size_of` instead of `TypeId` would wrongly accept them
macro_rules! float_newtype {
    ($name:ident, $f:ty) => {
        #[derive(Copy, Clone, Debug, PartialEq, PartialOrd)]
        pub struct $name(pub $f);
        impl Add for $name { type Output = $name; fn add(self, o: $name) -> $name { $name(self.0 + o.0) } }
        impl Sub for $name { type Output = $name; fn sub(self, o: $name) -> $name { $name(self.0 - o.0) } }
        impl Mul for $name { type Output = $name; fn mul(self, o: $name) -> $name { $name(self.0 * o.0) } }
        impl Div for $name { type Output = $name; fn div(self, o: $name) -> $name { $name(self.0 / o.0) } }
        impl Rem for $name { type Output = $name; fn rem(self, o: $name) -> $name { nonring(); $name(self.0 % o.0) } }
        impl Neg for $name { type Output = $name; fn neg(self) -> $name { $name(-self.0) } }
        impl Zero for $name { fn zero() -> Self { $name(0.0) } fn is_zero(&self) -> bool { self.0 == 0.0 } }
        impl One for $name { fn one() -> Self { $name(1.0) } }
        impl Num for $name { type FromStrRadixErr = (); fn from_str_radix(_: &str, _: u32) -> Result<Self, ()> { Err(()) } }
        impl Signed for $name {
            fn abs(&self) -> Self { nonring(); $name(self.0.abs()) }
            fn abs_sub(&self, o: &Self) -> Self { nonring(); $name((self.0 - o.0).max(0.0)) }
            fn signum(&self) -> Self { nonring(); $name(self.0.signum()) }
            fn is_positive(&self) -> bool { nonring(); self.0 > 0.0 }
            fn is_negative(&self) -> bool { nonring(); self.0 < 0.0 }
        }
        impl ToPrimitive for $name {
            fn to_i64(&self) -> Option<i64> { Some(self.0 as i64) }
            fn to_u64(&self) -> Option<u64> { Some(self.0 as u64) }
            fn to_f64(&self) -> Option<f64> { Some(self.0 as f64) }
        }
        impl FromPrimitive for $name {
            fn from_i64(n: i64) -> Option<Self> { Some($name(n as $f)) }
            fn from_u64(n: u64) -> Option<Self> { Some($name(n as $f)) }
            fn from_f64(v: f64) -> Option<Self> { Some($name(v as $f)) }
        }
    };
}
float_newtype!(New32, f32);
float_newtype!(New64, f64);


/// f64 stored with all bits inverted: same arithmetic as f64, but `zero()` is NOT the all-zero bit pattern (all-zero
/// bits decode to NaN), so a value created by zeroing memory instead of through `Zero::zero()` poisons the result
#[derive(Copy, Clone, Debug, PartialEq, PartialOrd)]
pub struct Inv64(pub u64);
impl Inv64 {
    pub fn new(v: f64) -> Self {
        Inv64(!v.to_bits())
    }
    pub fn val(self) -> f64 {
        f64::from_bits(!self.0)
    }
}
macro_rules! inv_bin {
    ($tr:ident, $f:ident, $op:tt) => {
        impl $tr for Inv64 {
            type Output = Inv64;
            fn $f(self, o: Inv64) -> Inv64 {
                Inv64::new(self.val() $op o.val())
            }
        }
    };
}
inv_bin!(Add, add, +);
inv_bin!(Sub, sub, -);
inv_bin!(Mul, mul, *);
inv_bin!(Div, div, /);
impl Rem for Inv64 {
    type Output = Inv64;
    fn rem(self, o: Inv64) -> Inv64 {
        nonring();
        Inv64::new(self.val() % o.val())
    }
}
impl Neg for Inv64 {
    type Output = Inv64;
    fn neg(self) -> Inv64 {
        Inv64::new(-self.val())
    }
}
impl Zero for Inv64 {
    fn zero() -> Self {
        Inv64::new(0.0)
    }
    fn is_zero(&self) -> bool {
        self.val() == 0.0
    }
}
impl One for Inv64 {
    fn one() -> Self {
        Inv64::new(1.0)
    }
}
impl Num for Inv64 {
    type FromStrRadixErr = ();
    fn from_str_radix(_: &str, _: u32) -> Result<Self, ()> {
        Err(())
    }
}
impl Signed for Inv64 {
    fn abs(&self) -> Self {
        nonring();
        Inv64::new(self.val().abs())
    }
    fn abs_sub(&self, o: &Self) -> Self {
        nonring();
        Inv64::new((self.val() - o.val()).max(0.0))
    }
    fn signum(&self) -> Self {
        nonring();
        Inv64::new(self.val().signum())
    }
    fn is_positive(&self) -> bool {
        nonring();
        self.val() > 0.0
    }
    fn is_negative(&self) -> bool {
        nonring();
        self.val() < 0.0
    }
}
impl ToPrimitive for Inv64 {
    fn to_i64(&self) -> Option<i64> {
        Some(self.val() as i64)
    }
    fn to_u64(&self) -> Option<u64> {
        Some(self.val() as u64)
    }
    fn to_f64(&self) -> Option<f64> {
        Some(self.val())
    }
}
impl FromPrimitive for Inv64 {
    fn from_i64(n: i64) -> Option<Self> {
        Some(Inv64::new(n as f64))
    }
    fn from_u64(n: u64) -> Option<Self> {
        Some(Inv64::new(n as f64))
    }
    fn from_f64(v: f64) -> Option<Self> {
        Some(Inv64::new(v))
    }
}
