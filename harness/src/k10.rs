//! K10: the real AVX2 `VectorizedMultiplyMod` (hook H3) on single operand triples and on scans over all residues of
//! Rader configurations, vs the Lean word-level model `mulRem` (Model/MulRem.lean).
use crate::util::*;
use std::io::Write;

#[cfg(feature = "avx")]
fn one(a: u64, b: u32, d: u32) -> String {
    match catch(|| rustfft::verif_hooks::avx_mul_rem(a, b, d)) {
        Err(_) => "mulrem panic".to_string(),
        Ok(None) => "mulrem unavailable".to_string(),
        Ok(Some((st, lanes))) => {
            if lanes.iter().any(|&l| l != lanes[0]) {
                format!("mulrem lanes-differ {} {} {} {}", lanes[0], lanes[1], lanes[2], lanes[3])
            } else {
                format!("mulrem ok b={} divisor={} intermediate={} rem={}", st[0], st[1], st[2], lanes[0])
            }
        }
    }
}
#[cfg(not(feature = "avx"))]
fn one(_a: u64, _b: u32, _d: u32) -> String {
    "mulrem unavailable".to_string()
}

#[cfg(feature = "avx")]
fn scan(b: u32, d: u32, lo: u64, hi: u64) -> String {
    let r = catch(|| {
        let mut bad = 0u64;
        let mut first: Option<u64> = None;
        for a in lo..hi {
            let got = rustfft::verif_hooks::avx_mul_rem(a, b, d).map(|x| x.1[0]);
            let want = ((a as u128 & 0xffff_ffff) * (b as u128) % d as u128) as u64;
            if got != Some(want) {
                bad += 1;
                if first.is_none() {
                    first = Some(a);
                }
            }
        }
        (bad, first)
    });
    match r {
        Err(_) => "mulremscan panic".to_string(),
        Ok((bad, first)) => format!("mulremscan bad={} first={}", bad, first.map(|x| x.to_string()).unwrap_or("-".into())),
    }
}
#[cfg(not(feature = "avx"))]
fn scan(_b: u32, _d: u32, _lo: u64, _hi: u64) -> String {
    "mulremscan unavailable".to_string()
}

fn powm(mut b: u64, mut e: u64, m: u64) -> u64 {
    let mut r = 1u64;
    b %= m;
    while e > 0 {
        if e & 1 == 1 {
            r = (r as u128 * b as u128 % m as u128) as u64;
        }
        b = (b as u128 * b as u128 % m as u128) as u64;
        e >>= 1;
    }
    r
}

pub fn run(args: &[String]) {
    let nrandom: usize = args[0].parse().unwrap();
    let nscan: usize = args[1].parse().unwrap();
    let scan_len: u64 = args[2].parse().unwrap();
    let mut rng = Rng::new(seed_from_env() ^ 0x1010_1010);
    let stdout = std::io::stdout();
    let mut out = std::io::BufWriter::new(stdout.lock());
    // single triples: random divisors of every size up to 2^31 (and beyond: the constructor must panic), edge operands
    for i in 0..nrandom {
        let bits = 2 + rng.below(31) as u32;
        let d = match i % 9 {
            0 => (1u64 << 31) - 1 - rng.below(64),
            1 => (1u64 << 31) + rng.below(8),
            2 => 0,
            _ => (rng.below(1u64 << bits) + 1).min((1u64 << 32) - 1),
        } as u32;
        let dd = d.max(1) as u64;
        let b = match i % 5 {
            0 => dd - 1,
            1 => rng.below(1u64 << 32),
            _ => rng.below(dd),
        } as u32;
        let a = match i % 7 {
            0 => dd - 1,
            1 => 0,
            2 => rng.next(),
            _ => rng.below(dd),
        };
        writeln!(out, "mulrem {} {} {}\t{}", a, b, d, one(a, b, d)).unwrap();
    }
    // scans in the configurations RadersAvx2 really builds: prime p, generator g, multiplier g^4 (f32) / g^2 (f64)
    for p in crate::k1::structured(seed_from_env() ^ 0x77, nscan * 4, 24).into_iter().filter(|&p| p > 1000 && is_prime_u64(p as u64)).take(nscan) {
        let p = p as u64;
        let g = rustfft::verif_hooks::primitive_root(p).unwrap_or(2);
        for k in [4u64, 2, 1] {
            let b = powm(g, k, p) as u32;
            let lo = rng.below(p.saturating_sub(scan_len).max(1));
            let hi = (lo + scan_len).min(p);
            writeln!(out, "mulremscan {} {} {} {}\t{}", b, p, lo, hi, scan(b, p as u32, lo, hi)).unwrap();
            // the top of the residue range, where a*b is largest
            let lo2 = p.saturating_sub(scan_len / 4);
            writeln!(out, "mulremscan {} {} {} {}\t{}", b, p, lo2, p, scan(b, p as u32, lo2, p)).unwrap();
        }
    }
}
