//! Independent reference DFT: twiddles from an exactly reduced integer index (octant symmetry), products and sums in
//! double-double arithmetic. Relative L2 error of the reference is ~1e-16, independent of n.

#[derive(Copy, Clone, Debug)]
pub struct DD {
    pub hi: f64,
    pub lo: f64,
}
#[inline]
fn two_sum(a: f64, b: f64) -> (f64, f64) {
    let s = a + b;
    let bb = s - a;
    (s, (a - (s - bb)) + (b - bb))
}
#[inline]
fn two_prod(a: f64, b: f64) -> (f64, f64) {
    let p = a * b;
    (p, a.mul_add(b, -p))
}
impl DD {
    pub const ZERO: DD = DD { hi: 0.0, lo: 0.0 };
    #[inline]
    pub fn add_prod(self, a: f64, b: f64) -> DD {
        // self + a*b
        let (p, e) = two_prod(a, b);
        let (s, t) = two_sum(self.hi, p);
        let lo = self.lo + e + t;
        let (hi, lo) = two_sum(s, lo);
        DD { hi, lo }
    }
    pub fn val(self) -> f64 {
        self.hi + self.lo
    }
}

/// (cos, sin) of 2*pi*m/n for 0 <= m < n, via reduction to the first octant
pub fn cos_sin_2pi(m: u64, n: u64) -> (f64, f64) {
    debug_assert!(m < n);
    // angle = 2*pi*m/n; work with 8*m/n octants
    let m8 = 8 * m as u128;
    let n = n as u128;
    let oct = (m8 / n) as u64; // 0..7
    let r = m8 % n; // remainder within octant: angle = (oct + r/n) * pi/4
    let base = |num: u128| -> (f64, f64) {
        // angle = (num/n) * pi/4 with 0 <= num <= n
        let a = (num as f64 / n as f64) * std::f64::consts::FRAC_PI_4;
        (a.cos(), a.sin())
    };
    let (c, s) = if oct % 2 == 0 { base(r) } else { let (c, s) = base(n - r); (s, c) };
    // now (c, s) = (cos, sin) of the angle reduced to [0, pi/2) within quadrant oct/2
    match oct / 2 {
        0 => (c, s),
        1 => (-s, c),
        2 => (-c, -s),
        _ => (s, -c),
    }
}

/// twiddle table w[m] = exp(-+ 2 pi i m / n)
pub fn twiddle_table(n: usize, inverse: bool) -> Vec<(f64, f64)> {
    (0..n)
        .map(|m| {
            let (c, s) = cos_sin_2pi(m as u64, n as u64);
            if inverse {
                (c, s)
            } else {
                (c, -s)
            }
        })
        .collect()
}

/// one output bin of the reference DFT
pub fn ref_bin(x: &[(f64, f64)], tw: &[(f64, f64)], k: usize) -> (f64, f64) {
    let n = x.len();
    let mut re = DD::ZERO;
    let mut im = DD::ZERO;
    let mut idx = 0usize;
    for j in 0..n {
        let (wr, wi) = tw[idx];
        let (xr, xi) = x[j];
        re = re.add_prod(xr, wr).add_prod(-xi, wi);
        im = im.add_prod(xr, wi).add_prod(xi, wr);
        idx += k;
        if idx >= n {
            idx -= n;
        }
    }
    (re.val(), im.val())
}

pub fn ref_dft(x: &[(f64, f64)], inverse: bool) -> Vec<(f64, f64)> {
    let n = x.len();
    let tw = twiddle_table(n, inverse);
    (0..n).map(|k| ref_bin(x, &tw, k)).collect()
}
