//! search for C10 on the real code: after any request history every returned transform is still correct (vs the
//! double-double reference, and round trip), stays valid after the planner is dropped, and two planners fed the same
//! sequence return transforms with bit-identical outputs.
use crate::planners::*;
use crate::real::*;
use crate::refdft::*;
use crate::report::*;
use crate::snum::bound;
use crate::util::*;
use rayon::prelude::*;
use rustfft::num_complex::Complex;
use rustfft::{Fft, FftDirection};
use std::sync::Arc;

fn histories(seed: u64, nrandom: usize) -> Vec<Vec<(usize, FftDirection)>> {
    let mut rng = Rng::new(seed);
    let pools: Vec<Vec<usize>> = vec![
        vec![8, 16, 64, 128, 512, 1024],
        vec![12, 36, 72, 144, 432, 864],
        vec![5, 25, 75, 150, 600, 1200],
        vec![7, 11, 77, 154, 847],
        vec![17, 34, 136, 37, 74, 1009, 2018, 1008],
        vec![47, 94, 719, 1438, 96, 2048, 1536],
        vec![1, 2, 3, 0, 9, 10, 20, 60, 120],
        vec![1201, 1200, 2402, 600, 300],
        vec![11, 37, 41, 407, 451, 1517, 74, 111, 82, 59, 649],
        vec![83, 166, 107, 214, 167, 1031, 59, 118, 149],
        vec![512, 1536, 1024, 3072, 2048, 6144, 384, 719, 1439],
    ];
    let mut hs = vec![];
    for pool in &pools {
        let items: Vec<(usize, FftDirection)> = pool.iter().flat_map(|&n| [(n, FftDirection::Forward), (n, FftDirection::Inverse)]).collect();
        // every ordered pair, and sampled triples
        for a in &items {
            for b in &items {
                if rng.below(3) == 0 {
                    hs.push(vec![*a, *b]);
                }
            }
        }
        for _ in 0..nrandom / 8 + 1 {
            hs.push((0..3).map(|_| items[rng.below(items.len() as u64) as usize]).collect());
        }
    }
    let hc = [720usize, 840, 1260, 2520, 4096, 6561];
    let primes = [1usize, 5, 7, 11, 13, 47, 59];
    for _ in 0..nrandom {
        let base = hc[rng.below(hc.len() as u64) as usize];
        let ds: Vec<usize> = (1..=base).filter(|d| base % d == 0).collect();
        let len = 2 + rng.below(11) as usize;
        hs.push(
            (0..len)
                .map(|_| {
                    let d = ds[rng.below(ds.len() as u64) as usize];
                    let p = primes[rng.below(primes.len() as u64) as usize];
                    let n = if d * p <= 8192 { d * p } else { d };
                    (n, if rng.below(2) == 0 { FftDirection::Forward } else { FftDirection::Inverse })
                })
                .collect(),
        );
    }
    hs
}

fn check_one<T: Real>(kind: Kind, h: &[(usize, FftDirection)], rng: &mut Rng, rep: &mut Report) {
    let htext: Vec<String> = h.iter().map(|(n, d)| format!("{}:{}", n, dir_name(*d))).collect();
    let tag = format!("{}/{} [{}]", kind.name(), T::NAME, htext.join(","));
    rep.evaluations += 1;
    let r = catch(|| {
        let mut p1 = AnyPlanner::<T>::new(kind).expect("planner unavailable");
        let mut p2 = AnyPlanner::<T>::new(kind).expect("planner unavailable");
        let f1: Vec<Arc<dyn Fft<T>>> = h.iter().map(|&(n, d)| p1.plan(n, d)).collect();
        let f2: Vec<Arc<dyn Fft<T>>> = h.iter().map(|&(n, d)| p2.plan(n, d)).collect();
        drop(p1);
        drop(p2);
        let mut problems: Vec<String> = vec![];
        for (i, &(n, d)) in h.iter().enumerate() {
            if f1[i].len() != n || f1[i].fft_direction() != d {
                problems.push(format!("step {}: len/direction {} {:?}", i, f1[i].len(), f1[i].fft_direction()));
                continue;
            }
            let x: Vec<(f64, f64)> = (0..n).map(|_| ((rng.normal() as f32) as f64, (rng.normal() as f32) as f64)).collect();
            let mut a: Vec<Complex<T>> = x.iter().map(|&(r, i)| cx(r, i)).collect();
            let mut b = a.clone();
            // used after the planners are gone
            f1[i].process(&mut a);
            f2[i].process(&mut b);
            if !same_bits(&a, &b) {
                problems.push(format!("step {}: two planners fed the same sequence differ bitwise at n={}", i, n));
            }
            if n <= 2048 && n > 0 {
                let reference = ref_dft(&x, d == FftDirection::Inverse);
                let mut num = 0.0;
                let mut den = 0.0;
                for (o, r) in a.iter().zip(&reference) {
                    num += (o.re.to() - r.0).powi(2) + (o.im.to() - r.1).powi(2);
                    den += r.0 * r.0 + r.1 * r.1;
                }
                let e = if den == 0.0 { num } else { (num / den).sqrt() };
                if !(e <= bound(T::EPS, n) + 4.0 * f64::EPSILON) {
                    problems.push(format!("step {}: n={} relative error {:e} > bound {:e}", i, n, e, bound(T::EPS, n)));
                }
            }
            // fresh planner: history must not matter beyond rounding (structure may differ for AVX: compare numerically)
            let fresh = AnyPlanner::<T>::new(kind).unwrap().plan(n, d);
            let mut c: Vec<Complex<T>> = x.iter().map(|&(r, i)| cx(r, i)).collect();
            fresh.process(&mut c);
            let diff = crate::s07::rel_diff(&a, &c);
            if !(diff <= 2.0 * bound(T::EPS, n)) {
                problems.push(format!("step {}: n={} differs from a fresh planner's transform by {:e}", i, n, diff));
            }
        }
        problems
    });
    match r {
        Err(e) => rep.fail(format!("history-panic {}", tag), e),
        Ok(problems) => {
            if h.len() >= 2 {
                rep.nontrivial += 1;
            }
            for p in problems {
                rep.fail(format!("history {} :: {}", tag, p.split(':').next().unwrap_or("")), p);
            }
        }
    }
}

pub fn run(args: &[String]) {
    let nrandom: usize = args[0].parse().unwrap();
    let seed = seed_from_env() ^ 0x1010;
    let hs = histories(seed, nrandom);
    let shared = Shared::new();
    hs.par_iter().enumerate().for_each(|(i, h)| {
        let mut rep = Report::default();
        let mut rng = Rng::new(seed ^ (i as u64) * 101);
        let kinds = avail(); let kind = kinds[i % kinds.len()];
        if i % 2 == 0 {
            check_one::<f32>(kind, h, &mut rng, &mut rep);
        } else {
            check_one::<f64>(kind, h, &mut rng, &mut rep);
        }
        if i == 5 || i == 700 {
            rep.sample(format!("{:?}/{}: {:?}", kind, if i % 2 == 0 { "f32" } else { "f64" }, h.iter().map(|(n, d)| format!("{}:{}", n, dir_name(*d))).collect::<Vec<_>>()));
        }
        shared.merge(rep);
    });
    shared.into_inner().print("S10-histories", "one case per (history, planner, type): sampled ordered pairs and triples over pools of related lengths, random sequences <= 12 over divisor lattices x primes; every returned transform used after drop(planner), vs reference, vs a second planner fed the same sequence (bitwise), vs a fresh planner; non-trivial = at least two requests");
}
