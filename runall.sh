#!/bin/sh
# run every check's quick (or $1) tier on the current tree; summary at the end
cd "$(dirname "$0")"
tier=${1:-quick}
rc_all=0
for p in C01 C02 C03 C04 C05 C06 C07 C08 C09 C10 C11 C12 C13 C14 C15 C16; do
  ./check $p --tier $tier | grep -E "^VIOLATION|^KNOWN-FINDING|^\[" | cut -c1-220
done
