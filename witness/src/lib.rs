//! Witness crate for C16 (and the auto-trait clause of C11): a downstream program written against the 6.x public API that
//! names every public item of release 6.4.1 with an explicit signature ascription. It is compiled against /repo on every
//! run (guard OFF: no verification cfg); it must compile exactly as long as the public surface is intact.
#![allow(dead_code, unused_imports, clippy::type_complexity)]

use rustfft::algorithm::butterflies::{
    Butterfly1, Butterfly11, Butterfly12, Butterfly13, Butterfly16, Butterfly17, Butterfly19, Butterfly2, Butterfly23, Butterfly24,
    Butterfly27, Butterfly29, Butterfly3, Butterfly31, Butterfly32, Butterfly4, Butterfly5, Butterfly6, Butterfly7, Butterfly8, Butterfly9,
};
use rustfft::algorithm::{
    BluesteinsAlgorithm, Dft, GoodThomasAlgorithm, GoodThomasAlgorithmSmall, MixedRadix, MixedRadixSmall, RadersAlgorithm, Radix3, Radix4,
};
use rustfft::num_complex::Complex;
use rustfft::num_traits::{FromPrimitive, Signed, Zero};
use rustfft::{Direction, Fft, FftDirection, FftNum, FftPlanner, FftPlannerAvx, FftPlannerNeon, FftPlannerScalar, FftPlannerSse, FftPlannerWasmSimd, Length};
use std::sync::Arc;

fn is_send_sync<X: Send + Sync>() {}
fn is_clone_copy_eq_debug<X: Clone + Copy + PartialEq + Eq + std::fmt::Debug>() {}

/// the numeric bound: exactly these supertraits are what downstream generic code relies on
fn fftnum_bounds<T: FftNum>() {
    fn needs<U: Copy + FromPrimitive + Signed + Sync + Send + std::fmt::Debug + 'static>() {}
    needs::<T>();
}
/// … and every type with those bounds is an FftNum (blanket impl)
fn fftnum_blanket<U: Copy + FromPrimitive + Signed + Sync + Send + std::fmt::Debug + 'static>() {
    fn needs<T: FftNum>() {}
    needs::<U>();
}

pub fn planners<T: FftNum>() {
    let _: fn() -> FftPlanner<T> = FftPlanner::<T>::new;
    let _: fn(&mut FftPlanner<T>, usize, FftDirection) -> Arc<dyn Fft<T>> = FftPlanner::<T>::plan_fft;
    let _: fn(&mut FftPlanner<T>, usize) -> Arc<dyn Fft<T>> = FftPlanner::<T>::plan_fft_forward;
    let _: fn(&mut FftPlanner<T>, usize) -> Arc<dyn Fft<T>> = FftPlanner::<T>::plan_fft_inverse;

    let _: fn() -> FftPlannerScalar<T> = FftPlannerScalar::<T>::new;
    let _: fn(&mut FftPlannerScalar<T>, usize, FftDirection) -> Arc<dyn Fft<T>> = FftPlannerScalar::<T>::plan_fft;
    let _: fn(&mut FftPlannerScalar<T>, usize) -> Arc<dyn Fft<T>> = FftPlannerScalar::<T>::plan_fft_forward;
    let _: fn(&mut FftPlannerScalar<T>, usize) -> Arc<dyn Fft<T>> = FftPlannerScalar::<T>::plan_fft_inverse;

    let _: fn() -> Result<FftPlannerAvx<T>, ()> = FftPlannerAvx::<T>::new;
    let _: fn(&mut FftPlannerAvx<T>, usize, FftDirection) -> Arc<dyn Fft<T>> = FftPlannerAvx::<T>::plan_fft;
    let _: fn(&mut FftPlannerAvx<T>, usize) -> Arc<dyn Fft<T>> = FftPlannerAvx::<T>::plan_fft_forward;
    let _: fn(&mut FftPlannerAvx<T>, usize) -> Arc<dyn Fft<T>> = FftPlannerAvx::<T>::plan_fft_inverse;

    let _: fn() -> Result<FftPlannerSse<T>, ()> = FftPlannerSse::<T>::new;
    let _: fn(&mut FftPlannerSse<T>, usize, FftDirection) -> Arc<dyn Fft<T>> = FftPlannerSse::<T>::plan_fft;
    let _: fn(&mut FftPlannerSse<T>, usize) -> Arc<dyn Fft<T>> = FftPlannerSse::<T>::plan_fft_forward;
    let _: fn(&mut FftPlannerSse<T>, usize) -> Arc<dyn Fft<T>> = FftPlannerSse::<T>::plan_fft_inverse;

    let _: fn() -> Result<FftPlannerNeon<T>, ()> = FftPlannerNeon::<T>::new;
    let _: fn(&mut FftPlannerNeon<T>, usize, FftDirection) -> Arc<dyn Fft<T>> = FftPlannerNeon::<T>::plan_fft;
    let _: fn(&mut FftPlannerNeon<T>, usize) -> Arc<dyn Fft<T>> = FftPlannerNeon::<T>::plan_fft_forward;
    let _: fn(&mut FftPlannerNeon<T>, usize) -> Arc<dyn Fft<T>> = FftPlannerNeon::<T>::plan_fft_inverse;

    let _: fn() -> Result<FftPlannerWasmSimd<T>, ()> = FftPlannerWasmSimd::<T>::new;
    let _: fn(&mut FftPlannerWasmSimd<T>, usize, FftDirection) -> Arc<dyn Fft<T>> = FftPlannerWasmSimd::<T>::plan_fft;
    let _: fn(&mut FftPlannerWasmSimd<T>, usize) -> Arc<dyn Fft<T>> = FftPlannerWasmSimd::<T>::plan_fft_forward;
    let _: fn(&mut FftPlannerWasmSimd<T>, usize) -> Arc<dyn Fft<T>> = FftPlannerWasmSimd::<T>::plan_fft_inverse;

    is_send_sync::<FftPlanner<T>>();
    is_send_sync::<FftPlannerScalar<T>>();
    is_send_sync::<FftPlannerAvx<T>>();
    is_send_sync::<FftPlannerSse<T>>();
}

pub fn traits<T: FftNum>(fft: &dyn Fft<T>) {
    // Fft: Length + Direction + Sync + Send, object safe, with exactly these methods
    fn supertraits<X: ?Sized + Length + Direction + Sync + Send>(_: &X) {}
    supertraits(fft);
    // method signatures, by calling each through the trait object with explicitly typed arguments
    let mut buf: Vec<Complex<T>> = Vec::new();
    let mut out: Vec<Complex<T>> = Vec::new();
    let mut scratch: Vec<Complex<T>> = Vec::new();
    let imm: &[Complex<T>] = &[];
    let _: () = fft.process(&mut buf[..]);
    let _: () = fft.process_with_scratch(&mut buf[..], &mut scratch[..]);
    let _: () = fft.process_outofplace_with_scratch(&mut buf[..], &mut out[..], &mut scratch[..]);
    let _: () = fft.process_immutable_with_scratch(imm, &mut out[..], &mut scratch[..]);
    let _: usize = fft.get_inplace_scratch_len();
    let _: usize = fft.get_outofplace_scratch_len();
    let _: usize = fft.get_immutable_scratch_len();
    let _: usize = Length::len(fft);
    let _: FftDirection = Direction::fft_direction(fft);
    is_send_sync::<Arc<dyn Fft<T>>>();
}

pub fn direction() {
    let f: FftDirection = FftDirection::Forward;
    let i: FftDirection = FftDirection::Inverse;
    let _: FftDirection = f.opposite_direction();
    let _: fn(&FftDirection) -> FftDirection = FftDirection::opposite_direction;
    let _: String = format!("{} {:?}", f, i);
    is_clone_copy_eq_debug::<FftDirection>();
    is_send_sync::<FftDirection>();
    // exhaustive match: no variant may be added in 6.x without breaking this (the enum is not #[non_exhaustive])
    match f {
        FftDirection::Forward => {}
        FftDirection::Inverse => {}
    }
}

/// a downstream implementation of the traits must keep compiling: the required methods are exactly these seven
pub struct MyFft;
impl Length for MyFft {
    fn len(&self) -> usize {
        1
    }
}
impl Direction for MyFft {
    fn fft_direction(&self) -> FftDirection {
        FftDirection::Forward
    }
}
impl Fft<f32> for MyFft {
    fn process_with_scratch(&self, _buffer: &mut [Complex<f32>], _scratch: &mut [Complex<f32>]) {}
    fn process_outofplace_with_scratch(&self, _input: &mut [Complex<f32>], _output: &mut [Complex<f32>], _scratch: &mut [Complex<f32>]) {}
    fn process_immutable_with_scratch(&self, _input: &[Complex<f32>], _output: &mut [Complex<f32>], _scratch: &mut [Complex<f32>]) {}
    fn get_inplace_scratch_len(&self) -> usize {
        0
    }
    fn get_outofplace_scratch_len(&self) -> usize {
        0
    }
    fn get_immutable_scratch_len(&self) -> usize {
        0
    }
}

macro_rules! butterfly {
    ($($name:ident),*) => {
        pub fn butterflies<T: FftNum>() {
            $(
                let _: fn(FftDirection) -> $name<T> = $name::<T>::new;
                let _: fn($name<T>) -> Arc<dyn Fft<T>> = |b| Arc::new(b);
                is_send_sync::<$name<T>>();
            )*
        }
    };
}
butterfly!(
    Butterfly1, Butterfly2, Butterfly3, Butterfly4, Butterfly5, Butterfly6, Butterfly7, Butterfly8, Butterfly9, Butterfly11, Butterfly12,
    Butterfly13, Butterfly16, Butterfly17, Butterfly19, Butterfly23, Butterfly24, Butterfly27, Butterfly29, Butterfly31, Butterfly32
);

pub fn algorithms<T: FftNum>() {
    // the two further public constructors of the butterflies (6.4.1: `pub fn direction_of(fft: &ButterflyN<T>) -> Self`)
    let _: fn(&Butterfly3<T>) -> Butterfly3<T> = Butterfly3::<T>::direction_of;
    let _: fn(&Butterfly6<T>) -> Butterfly6<T> = Butterfly6::<T>::direction_of;
    let _: fn(usize, FftDirection) -> Dft<T> = Dft::<T>::new;
    let _: fn(Arc<dyn Fft<T>>, Arc<dyn Fft<T>>) -> MixedRadix<T> = MixedRadix::<T>::new;
    let _: fn(Arc<dyn Fft<T>>, Arc<dyn Fft<T>>) -> MixedRadixSmall<T> = MixedRadixSmall::<T>::new;
    let _: fn(Arc<dyn Fft<T>>, Arc<dyn Fft<T>>) -> GoodThomasAlgorithm<T> = GoodThomasAlgorithm::<T>::new;
    let _: fn(Arc<dyn Fft<T>>, Arc<dyn Fft<T>>) -> GoodThomasAlgorithmSmall<T> = GoodThomasAlgorithmSmall::<T>::new;
    let _: fn(Arc<dyn Fft<T>>) -> RadersAlgorithm<T> = RadersAlgorithm::<T>::new;
    let _: fn(usize, Arc<dyn Fft<T>>) -> BluesteinsAlgorithm<T> = BluesteinsAlgorithm::<T>::new;
    let _: fn(usize, FftDirection) -> Radix4<T> = Radix4::<T>::new;
    let _: fn(u32, Arc<dyn Fft<T>>) -> Radix4<T> = Radix4::<T>::new_with_base;
    let _: fn(usize, FftDirection) -> Radix3<T> = Radix3::<T>::new;
    let _: fn(u32, Arc<dyn Fft<T>>) -> Radix3<T> = Radix3::<T>::new_with_base;
    fn as_fft<T: FftNum, X: Fft<T> + 'static>(x: X) -> Arc<dyn Fft<T>> {
        Arc::new(x)
    }
    let _: fn(Dft<T>) -> Arc<dyn Fft<T>> = as_fft::<T, Dft<T>>;
    let _: fn(MixedRadix<T>) -> Arc<dyn Fft<T>> = as_fft::<T, MixedRadix<T>>;
    let _: fn(MixedRadixSmall<T>) -> Arc<dyn Fft<T>> = as_fft::<T, MixedRadixSmall<T>>;
    let _: fn(GoodThomasAlgorithm<T>) -> Arc<dyn Fft<T>> = as_fft::<T, GoodThomasAlgorithm<T>>;
    let _: fn(GoodThomasAlgorithmSmall<T>) -> Arc<dyn Fft<T>> = as_fft::<T, GoodThomasAlgorithmSmall<T>>;
    let _: fn(RadersAlgorithm<T>) -> Arc<dyn Fft<T>> = as_fft::<T, RadersAlgorithm<T>>;
    let _: fn(BluesteinsAlgorithm<T>) -> Arc<dyn Fft<T>> = as_fft::<T, BluesteinsAlgorithm<T>>;
    let _: fn(Radix4<T>) -> Arc<dyn Fft<T>> = as_fft::<T, Radix4<T>>;
    let _: fn(Radix3<T>) -> Arc<dyn Fft<T>> = as_fft::<T, Radix3<T>>;
    is_send_sync::<Dft<T>>();
    is_send_sync::<MixedRadix<T>>();
    is_send_sync::<MixedRadixSmall<T>>();
    is_send_sync::<GoodThomasAlgorithm<T>>();
    is_send_sync::<GoodThomasAlgorithmSmall<T>>();
    is_send_sync::<RadersAlgorithm<T>>();
    is_send_sync::<BluesteinsAlgorithm<T>>();
    is_send_sync::<Radix4<T>>();
    is_send_sync::<Radix3<T>>();
}

/// the README / docs example, verbatim in spirit
pub fn readme_example() {
    let mut planner = FftPlanner::<f32>::new();
    let fft = planner.plan_fft_forward(1234);
    let mut buffer = vec![Complex { re: 0.0f32, im: 0.0f32 }; 1234];
    fft.process(&mut buffer);
    let _fft_clone: Arc<dyn Fft<f32>> = Arc::clone(&fft);
    let mut scratch = vec![Complex::<f32>::zero(); fft.get_inplace_scratch_len()];
    fft.process_with_scratch(&mut buffer, &mut scratch);
    if let Ok(mut p) = FftPlannerAvx::<f64>::new() {
        let f: Arc<dyn Fft<f64>> = p.plan_fft(16, FftDirection::Inverse);
        let _ = (f.len(), f.fft_direction());
    }
    // re-exports
    let _: rustfft::num_complex::Complex<f64> = rustfft::num_complex::Complex::new(1.0, 2.0);
    // the re-exported Complex comes with its float helpers (they exist only when num-complex is built with `std` or `libm`;
    // this crate has no dependency edge to num-complex of its own)
    let _: fn(Complex<f64>) -> f64 = Complex::<f64>::norm;
    let _: fn(Complex<f32>) -> f32 = Complex::<f32>::arg;
    let _: fn(f64, f64) -> Complex<f64> = Complex::<f64>::from_polar;
    let _: fn(Complex<f64>) -> (f64, f64) = Complex::<f64>::to_polar;
    let _: fn(f32) -> Complex<f32> = Complex::<f32>::cis;
    let _: fn(Complex<f64>) -> Complex<f64> = Complex::<f64>::exp;
    let _: fn(Complex<f64>) -> Complex<f64> = Complex::<f64>::sqrt;
    let _: fn(Complex<f64>, f64) -> Complex<f64> = Complex::<f64>::powf;
    let _: fn(&Complex<f64>) -> f64 = Complex::<f64>::norm_sqr;
    let _: f64 = rustfft::num_traits::Zero::zero();
}
