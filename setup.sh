#!/bin/sh
# Build the framework from files on disk only (offline): translators -> Lean model, theorems, model driver -> Rust harness.
#
# Every step that depends on the CONTENT of /repo (translators, harness builds, theorem modules over regenerated tables)
# is only a cache warm-up here: each `./check <id>` re-runs the translators, rebuilds the harness against /repo's working
# tree and rebuilds its own Props modules, and reports whatever no longer parses / builds as a broken obligation of the
# property that owns it.  So such a step failing must not stop the setup (it is reported loudly instead); only a broken
# toolchain (the model driver itself not building) is fatal.
cd "$(dirname "$0")"
export CARGO_NET_OFFLINE=true
warn() { echo "setup: WARNING: $1 (will be reported by the checks that depend on it)"; }
python3 tools/t1_scratch.py || warn "translator T1 failed"
python3 tools/t6_twiddles.py || warn "translator T6 failed"
python3 tools/t4_scan.py || warn "translator T4 failed"
python3 tools/t5_surface.py || warn "translator T5 failed"
(cd harness && cargo build --release --offline) || warn "harness does not build against /repo"
python3 tools/t2_bflyops.py || warn "translator T2 failed"
python3 tools/t7_butterflies.py || warn "translator T7 failed"
python3 tools/t8_planned.py 64 || warn "translator T8 failed"
python3 tools/t9_trees.py || warn "translator T9 failed"
(cd lean && lake build rfvmodel) || { echo "setup: the model driver does not build"; exit 1; }
(cd lean && lake build RFV RFV.AllProps) || warn "some theorem modules do not build"
(cd harness && cargo build --release --offline --no-default-features --target-dir /verif/.build/cargo-none) || warn "harness (no cargo features) does not build"
(cd harness && cargo build --release --offline --no-default-features --features avx,sse --target-dir /verif/.build/cargo-nodebug --config profile.release.debug-assertions=false --config profile.release.overflow-checks=false) || warn "harness (release profile) does not build"
(cd witness && cargo build --offline) || warn "witness crate does not compile against /repo"
for fs in none sse avx; do
  if [ $fs = none ]; then f=""; else f="--features $fs"; fi
  (cd witness && cargo build --offline --no-default-features $f --target-dir /verif/.build/witness-$fs) || warn "witness crate does not compile with rustfft features [$fs]"
done
echo "setup ok"
