#!/bin/sh
# Build the framework from files on disk only (offline): translators -> Lean model, theorems, model driver -> Rust harness.
set -e
cd "$(dirname "$0")"
export CARGO_NET_OFFLINE=true
python3 tools/t1_scratch.py
python3 tools/t6_twiddles.py
[ -f tools/t4_scan.py ] && python3 tools/t4_scan.py || true
[ -f tools/t5_surface.py ] && python3 tools/t5_surface.py || true
(cd harness && cargo build --release --offline)
python3 tools/t2_bflyops.py
# the theorem modules are pre-built here only to warm the cache: every check rebuilds its own Props modules and reports a
# module that no longer builds as a broken obligation of that property, so a failing theorem must not stop the setup
(cd lean && lake build rfvmodel && (lake build RFV RFV.AllProps || echo "setup: some theorem modules do not build (reported by the checks that own them)"))
(cd harness && cargo build --release --offline && cargo build --release --offline --no-default-features --target-dir /verif/.build/cargo-none && cargo build --release --offline --no-default-features --features avx,sse --target-dir /verif/.build/cargo-nodebug --config profile.release.debug-assertions=false --config profile.release.overflow-checks=false)
(cd witness && cargo build --offline)
echo "setup ok"
