use rustfft::algorithm::{butterflies::Butterfly1, Dft, RadersAlgorithm};
use rustfft::{num_complex::Complex, Fft, FftDirection};
use std::sync::Arc;
fn main() {
    // documented precondition: inner_fft.len() + 1 must be prime. 1 + 1 = 2 is prime.
    let inner: Arc<dyn Fft<f64>> = Arc::new(Butterfly1::new(FftDirection::Forward));
    let r = RadersAlgorithm::new(inner);
    let mut buf = vec![Complex::new(1.0, 2.0), Complex::new(3.0, -1.0)];
    r.process(&mut buf);
    println!("{:?}", buf);
    assert!((buf[0] - Complex::new(4.0, 1.0)).norm() < 1e-12 && (buf[1] - Complex::new(-2.0, 3.0)).norm() < 1e-12);
    let inner: Arc<dyn Fft<f64>> = Arc::new(Dft::new(1, FftDirection::Inverse));
    let r = RadersAlgorithm::new(inner);
    let mut buf = vec![Complex::new(1.0, 2.0), Complex::new(3.0, -1.0)];
    r.process(&mut buf);
    assert!((buf[0] - Complex::new(4.0, 1.0)).norm() < 1e-12 && (buf[1] - Complex::new(-2.0, 3.0)).norm() < 1e-12);
    println!("ok");
}
